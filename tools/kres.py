#!/usr/bin/env python3
"""summarise a kani --export-json file: slowest harnesses and failures"""
import json,sys
d=json.load(open(sys.argv[1]))
rs=d['verification_results']['results']
rs.sort(key=lambda r:-r['duration_ms'])
print("slowest:")
for r in rs[:int(sys.argv[2]) if len(sys.argv)>2 else 12]: print("  ",r['harness_id'],r['status'],r['duration_ms'])
print("non-success:")
for r in rs:
    if r['status']!='Success':
        f=[(c['description'],c['location'].get('file','')[-30:]+':'+str(c['location'].get('line')), c.get('function','')[:60]) for c in r['checks'] if c['status']=='Failure']
        print("  ",r['harness_id'],r['duration_ms'],f[:4], len(f))
print("total cbmc s:",sum(r['duration_ms'] for r in rs)/1000, "n:",len(rs))
