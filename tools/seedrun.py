#!/usr/bin/env python3
"""Evaluate the checks against a seeded change WITHOUT touching /repo: copy the harness crate to a scratch directory,
point its path dependency at a scratch worktree of the repository (with the patch applied), run check.py there.
  seedrun.py <worktree> <scratch-dir> <PROP> [<PROP>...] [--tier quick]
Generators that write into the harness crate are redirected as well (VERIF_HARNESS_DIR)."""
import os, shutil, subprocess, sys
from pathlib import Path
V = Path(__file__).resolve().parent.parent
args = [a for a in sys.argv[1:] if not a.startswith("--")]
tier = "quick"
if "--tier" in sys.argv:
    tier = sys.argv[sys.argv.index("--tier") + 1]
    args = [a for a in args if a != tier]
wt, scratch, props = Path(args[0]).resolve(), Path(args[1]).resolve(), args[2:]
h = scratch / "harness"
scratch.mkdir(parents=True, exist_ok=True)
if h.exists():  # always work on a fresh copy of the current harness sources (build output lives elsewhere)
    shutil.rmtree(h / "src", ignore_errors=True)
    shutil.copytree(V / "harness" / "src", h / "src")
else:
    shutil.copytree(V / "harness", h, ignore=shutil.ignore_patterns("target"))
t = (V / "harness" / "Cargo.toml").read_text().replace('path = "/repo"', 'path = "%s"' % wt)
(h / "Cargo.toml").write_text(t)
env = dict(os.environ, VERIF_HARNESS_DIR=str(h), VERIF_BUILD_DIR=str(scratch / "build"), VERIF_EVIDENCE_DIR=str(scratch / "evidence"),
           VERIF_REPLAYS_DIR=str(scratch / "replays"), VERIF_REPO_DIR=str(wt))
rc_all = 0
for p in props:
    r = subprocess.run(["python3", str(V / "tools" / "check.py"), p, "--tier", tier], env=env, cwd=V)
    print("seedrun: %s -> exit %d" % (p, r.returncode))
    rc_all = max(rc_all, r.returncode)
sys.exit(rc_all)
