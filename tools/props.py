"""Per-property run tables for tools/check.py.

Harness naming: cNNq_* quick+thorough, cNNt_* thorough only, cNNn_* negative twin (must FAIL; thorough),
cNNk_* harness that currently reproduces a listed known finding (both tiers), cNNh_* heavy (thorough, own limits).
"""

COMMON_ASSUMPTIONS = [
    "bounded: every claim is for the stated shapes (element counts, input lengths) and all contents of those shapes; unwinding assertions are ON, so an insufficient loop bound is reported, never silently truncated",
    "panic = abort in the model (no unwinding)",
    "Kani allocator model: malloc never fails, alignment not modelled",
    "target x86_64 little-endian, 64-bit usize",
    "reads of uninitialised memory are judged only indirectly (value equality with the input)",
]


def std_runs(n, stubbing=False, heavy=False, **kw):
    """the usual pair: quick = cNNq_+cNNk_, thorough = + cNNt_ + cNNn_"""
    p = "c%02d" % n
    r = dict(features=[p], cfg="nostd", stubbing=stubbing,
             filters={"quick": [p + "q_", p + "k_"], "thorough": [p + "q_", p + "k_", p + "t_", p + "n_"]})
    r.update(kw)
    runs = [r]
    if heavy:
        runs.append(dict(features=[p, "big"], cfg="nostd", stubbing=stubbing, jobs=2, mem_gb=28, stack_unlimited=True,
                         harness_timeout=1500, filters={"quick": [], "thorough": [p + "h_"]}))
    return runs


PROPS = {
    "C01": dict(
        runs=std_runs(1),
        bounds="scalars/sums/products at full width; sequences with <= 3 symbolic elements (concrete count per query); maps/sets with <= 2 symbolic keys or 3 concrete keys; 18-tuple of u8",
        outside="sequences of > 3 non-ZST elements (same loop body, not re-proved); counts >= 2^14 on the encode side except where C15/C18 reach the prefix; bit sequences spanning >= 2 store words",
        explanation="real Encode::encode_to of each type into a fixed sink vs. the independent SCALE reference encoder, byte for byte, all contents symbolic; every panic/overflow/OOB check on the encode path is a CBMC obligation (no-panic clause).",
    ),
    "C04": dict(
        level="model_checking",
        runs=std_runs(4) + [dict(features=["c04"], cfg="nostd", solver="kissat", jobs=8,
                                 filters={"quick": [], "thorough": ["c04q_enc_u64", "c04q_dec_u64"]})],
        bounds="all values of u8/u16/u32/u64/u128 (full width); all byte strings of symbolic length <= size+2 (<= 18 bytes for u128); loop bound 19 (<= 16 value bytes + tag), checked by unwinding assertions",
        outside="nothing within the statement; trusted base only",
        explanation="Real CompactRef/Compact encoders, CompactLen, using_encoded (ArrayVec path) and the five Compact<uN> decoders vs. an independent model of the SCALE compact form (thresholds as powers of two; decoder defined as 'begins with the canonical form of a value that fits'); width compatibility asserted on the real encoders pairwise.",
        assumptions=[],
    ),
}

HOOK_COMMITS = []
NOT_APPLICABLE = {}
