"""Per-property run tables for tools/check.py.

Harness naming: cNNq_* quick+thorough, cNNt_* thorough only, cNNn_* negative twin (must FAIL; thorough),
cNNk_* harness that currently reproduces a listed known finding (both tiers), cNNh_* heavy (thorough, own limits).
"""

COMMON_ASSUMPTIONS = [
    "bounded: every claim is for the stated shapes (element counts, input lengths) and all contents of those shapes; unwinding assertions are ON, so an insufficient loop bound is reported, never silently truncated",
    "panic = abort in the model (no unwinding)",
    "Kani allocator model: malloc never fails, alignment not modelled",
    "target x86_64 little-endian, 64-bit usize",
    "reads of uninitialised memory are judged only indirectly (value equality with the input)",
]


import re as _re
from pathlib import Path as _Path


def _all_harness_names():
    src = _Path(__file__).resolve().parent.parent / "harness" / "src"
    found = set()
    texts = {f.name: f.read_text() for f in src.glob("*.rs")}
    for t in texts.values():
        found |= set(_re.findall(r"\b(c\d\d[qtnkh]_[a-z0-9_]+)\b", t))
    # names built with paste from the shared type lists: macro_rules! CB { ... [<PFX $n>] ... }  +  crate::LIST!(CB);
    lists = {}
    for m in _re.finditer(r"macro_rules! (\w+) \{\s*\(\$cb:ident\) => \{\s*\$cb! \{(.*?)\}\s*\};\s*\}", texts.get("gen.rs", ""), _re.S):
        lists[m.group(1)] = _re.findall(r"(?:^|;)\s*([a-z0-9_]+):", m.group(2))
    for t in texts.values():
        cbs = {}
        for m in _re.finditer(r"macro_rules! (\w+) \{(?:(?!macro_rules!).)*?\[<(c\d\d[qtnkh]_[a-z0-9_]*) \$n>\]", t, _re.S):
            cbs[m.group(1)] = m.group(2)
        for m in _re.finditer(r"crate::(\w+)!\((\w+)\);", t):
            if m.group(1) in lists and m.group(2) in cbs:
                found |= {cbs[m.group(2)] + n for n in lists[m.group(1)]}
    return {n for n in found if not n.endswith("_")}


def names(prefixes, exclude=()):
    """harness names found in harness/src (incl. generated files and the paste-built ones) starting with one of the prefixes,
    minus excluded substrings; used to batch runs and where a run must leave some harnesses of a family out"""
    return sorted(n for n in _all_harness_names() if any(n.startswith(p) for p in prefixes) and not any(x in n for x in exclude))


def std_runs(n, stubbing=False, heavy=False, **kw):
    """the usual pair: quick = cNNq_+cNNk_, thorough = + cNNt_ + cNNn_"""
    p = "c%02d" % n
    r = dict(features=[p], cfg="nostd", stubbing=stubbing,
             filters={"quick": [p + "q_", p + "k_"], "thorough": [p + "q_", p + "k_", p + "t_", p + "n_"]})
    r.update(kw)
    runs = [r]
    if heavy:
        runs.append(dict(features=[p, "big"], cfg="nostd", stubbing=True, jobs=2, mem_gb=28, stack_unlimited=True,
                         harness_timeout=1500, timeout=7200, filters={"quick": [], "thorough": [p + "h_"]}))
    return runs


PROPS = {
    "C01": dict(
        runs=std_runs(1, heavy=True),
        bounds="scalars/sums/products at full width; sequences with <= 3 symbolic elements (concrete count per query) and at the count-prefix boundary 63/64/65 elements (Vec, slice, deque, str) and 16384 (real scale, thorough); maps/sets with <= 2 symbolic keys or 3 concrete keys; tuples of arity 1-5, 9, 12, 18; unsized holders Box<[T]>/Box<str>/Rc<str>/Arc<[T]>; element types that are zero-sized in memory but not on the wire; a representative subset of the derived family; bit slices: Lsb0 order, u8 store, slices inside one word not reaching its last bit",
        outside="sequences of 4..62 and > 65 non-ZST elements (same loop body, not re-proved); counts >= 2^30 on the encode side; bit sequences in Msb0 order, u16+ stores, touching the end of their word or spanning >= 2 words (bitvec's bit-copy code does not finish within 300 s)",
        explanation="real Encode::encode_to of each type into a fixed sink vs. the independent SCALE reference encoder, byte for byte, all contents symbolic; every panic/overflow/OOB check on the encode path is a CBMC obligation (no-panic clause).",
    ),
    "C02": dict(
        runs=std_runs(2, heavy=True),
        bounds="scalars/sums/products at full width; sequences with <= 3 symbolic elements (count concrete per query, handed to the decoder as a concrete prefix: rule R2); maps/sets with 1 entry; symbolic 2-byte suffix after every encoding; element types with an EMPTY encoding but non-zero size, and zero-sized element types with a NON-empty encoding; derived subset incl. repr(transparent) newtypes through Box; real scale (thorough): u8 x {16383,16384,16385}, u32 x 4097 over slice and unknown-length inputs, 8 KiB elements across two chunk reservations",
        outside="element-path sequences of small elements straddling the 16 KiB window (8193+ loop iterations); maps with >= 2 entries on the decode side (C03 thorough covers 2); nesting deeper than 2",
        explanation="symbolic value -> real encode_to -> append a symbolic suffix -> real decode: Ok, logically equal (floats by bits, heaps as multisets), consumed exactly the encoding, suffix untouched.",
    ),
    "C03": dict(
        runs=std_runs(3),
        bounds="fixed-shape types: ALL byte strings of symbolic length <= size+1; containers: element count <= 3 (concrete, served as a concrete prefix), ALL payloads of symbolic length <= Lmax+1 (concrete length for String/maps/sets); Vec<u8>/Vec<u16> additionally with a fully symbolic count prefix (all strings <= 5/6 bytes); hostile counts 63 (one-byte prefix) for every container and 2^14, 2^30, 2^32-1, usize::MAX through decode_vec_with_len, over slice and unknown-length inputs",
        outside="long random strings; maps with >= 3 entries; nested element-path sequences with symbolic inner counts (out of memory at 3-4 payload bytes); multi-byte count prefixes in front of element-path containers (the prefix decoder itself is decided for all strings in C04)",
        explanation="real Decode::decode vs. an independent reference decoder on the same symbolic bytes: same accept/reject, same value, same consumed length, and every accepted input is the reference encoding of the returned value. Totality = no failed CBMC check (panic, unreachable!, overflow, OOB, invalid free) and satisfied unwinding assertions.",
    ),
    "C04": dict(
        level="model_checking",
        runs=std_runs(4) + [dict(features=["c04"], cfg="nostd", solver="kissat", jobs=8,
                                 filters={"quick": [], "thorough": ["c04q_enc_u64", "c04q_dec_u64"]})],
        bounds="all values of u8/u16/u32/u64/u128 (full width); all byte strings of symbolic length <= size+2 (<= 18 bytes for u128); loop bound 19 (<= 16 value bytes + tag), checked by unwinding assertions",
        outside="nothing within the statement; trusted base only",
        explanation="Real CompactRef/Compact encoders, CompactLen, using_encoded (ArrayVec path) and the five Compact<uN> decoders vs. an independent model of the SCALE compact form (thresholds as powers of two; decoder defined as 'begins with the canonical form of a value that fits'); width compatibility asserted on the real encoders pairwise.",
        assumptions=[],
    ),
}

def simple(n, **kw):
    d = dict(runs=std_runs(n))
    d.update(kw)
    return d


PROPS.update({
    "C06": simple(6,
        bounds="VecDeque capacity 4: ring states (head h, len n) listed per harness (8 quick / 18 thorough of the 25), element types u8/u16/u32/i64/u128/f32/bool/Option<u8>; Vec/String spare capacity {0,1,7}; maps with 2 concrete or 2 symbolic keys in both insertion orders + insert/remove; lists via push_front/push_back/split_off+append; holders Box/Rc/Arc/&/&&/&mut/Cow/Ref",
        outside="capacities > 4, histories that reallocate mid-way (fresh state of a larger capacity: same code), bit slices across store words",
        explanation="representation STATES rather than histories: each state is constructed through the public API with symbolic contents and must encode to the reference encoding of its logical element list; twice-encoding gives identical bytes."),
    "C07": simple(7,
        bounds="entry points on every universe type at its smallest non-trivial shape; bulk vs element-wise twin for all twelve primitive element types at 3 elements (encode: array, slice, wrapped VecDeque) and 2 elements (decode: Vec, array) over all payloads of symbolic length",
        outside="io::Write sink of the std configuration (C20 runs this module's quick slice under std); element-wise twin at real 16 KiB scale",
        explanation="encode_to(fixed sink) = encode() = encode_to(Vec) = encode_to(dyn Output) = using_encoded, encoded_size = length; containers of primitive P (bulk transmute paths) vs. containers of a hand-written element-wise twin Tw<P> with TYPE_INFO = Unknown."),
    "C13": simple(13,
        bounds="every MaxEncodedLen / ConstEncodedLen impl in src/max_encoded_len.rs and src/const_encoded_len.rs at full value width (tuples to 18, arrays to 3), tightness of each bound as a cover witness; encoded_fixed_size() for all ints/floats/bool/arrays; generated derive(MaxEncodedLen) family",
        outside="types outside the listed universe and the generated family",
        explanation="symbolic value, real encode_to into a fixed sink: length <= max_encoded_len(); == for ConstEncodedLen; == k when encoded_fixed_size() == Some(k)."),
    "C14": simple(14,
        bounds="strict prefixes: symbolic cut point over the whole encoding of a symbolic value per type/shape; concatenation of 3 values of mixed types; decode_all / decode_all_with_depth_limit (symbolic limit) on ALL byte strings of symbolic length <= size+1 for every fixed-shape type",
        outside="concatenations of more than 3 values (induction from C02's 'consumes exactly its encoding')",
        explanation="prefix: decode(enc(v)[..k]) is Err for every k < len; concat: three encodings back to back decode value by value and as a tuple; decode_all(b) == decode(b) with nothing left."),
    "C16": simple(16,
        bounds="every EncodeLike<B> for A family of src/codec.rs, src/encode_like.rs, src/compact.rs (table in harness/src/c16_like.rs; EncodeLike bound required by the harness so a removed impl breaks the build) at <= 2 elements, all contents",
        outside="families behind bit-vec/generic-array (self-likes, covered by round trips) and derived EncodeLike for Self (C05)",
        explanation="for each declared pair: bytes(a) == bytes(conv(a)) and decoding bytes(a) as B yields conv(a) consuming everything."),
    "C18": simple(18,
        bounds="DecodeLength::len for EVERY count in u32 (prefix + junk) on all six collections and tuples led by them; all byte strings <= 6; real collections with <= 3 elements; skip vs decode on ALL byte strings of symbolic length <= size+1 for every fixed-shape type and on containers with <= 3 elements",
        outside="containers with more elements",
        explanation="len reads exactly the count prefix; T::skip and T::decode on the same bytes agree on success and on the remaining length (both branches of the array skip)."),
    "C19": simple(19,
        bounds="ALL byte strings of symbolic length <= size+1 for every fixed-shape type; containers with <= 3 elements; direct read/read_byte sequences of symbolic sizes; one step from an ARBITRARY u64 counter (hook)",
        outside="-",
        explanation="count() == bytes the wrapped slice delivered, after success and after failure; failed reads add nothing; saturation at u64::MAX; forwarders transparent."),
})

GEN_DERIVE = [["python3", "tools/gen_derive.py"]]
PROPS["C13"]["pre"] = GEN_DERIVE
PROPS["C07"]["pre"] = GEN_DERIVE
PROPS["C07"]["runs"].append(dict(features=["c07", "big"], cfg="nostd", stubbing=True, jobs=2, mem_gb=28, harness_timeout=1500, timeout=7200, filters={"quick": [], "thorough": ["c07h_"]}))
PROPS["C07"]["runs"].append(dict(features=["c07"], cfg="std", jobs=8, filters={"quick": ["c07q_iow"], "thorough": ["c07q_iow", "c07t_iow", "c07q_ent_vec_opt_2", "c07q_ent_u32", "c07q_ent_string_2", "c07q_bulk_enc_u16"]}))
PROPS["C16"]["pre"] = GEN_DERIVE
GEN_BOTH = GEN_DERIVE + [["python3", "tools/gen_matrix.py"]]
PROPS["C01"]["pre"] = GEN_BOTH
PROPS["C02"]["pre"] = GEN_BOTH
PROPS["C03"]["pre"] = GEN_BOTH
PROPS.update({
    "C05": simple(5, pre=GEN_DERIVE,
        bounds="generated family G (tools/gen_derive.py: ~40 definitions quick, ~53 thorough; shapes unit/tuple/named x 0..4 fields x {none, skip, compact, encoded_as} x field types x enums with index attribute / discriminant / position / skip incl. all-variants-skipped, repr(transparent), single-field forwarders) plus hand-written generic / CompactAs / nested members; every definition decided over ALL its values (encode, round trip) and ALL byte strings up to max length + 1 (decode; the index byte ranges over all 256 values)",
        outside="definitions outside G (nesting depth > 2, lifetimes, custom bounds attributes, > 5 variants); the programs axis is enumeration by construction (a macro runs on program text)",
        explanation="each definition and its reference encoder/decoder are emitted from ONE abstract description, so the oracle does not go through the macro: real derived encode == layout, decode inverts it and fills skipped fields with Default, unknown index byte rejected, skipped variants encode to nothing and terminate (unwinding assertions)."),
    "C08": dict(runs=std_runs(8, heavy=True) + [dict(features=["c08"], cfg="std", jobs=8, harness_timeout=2400, timeout=7200, filters={"quick": ["c08q_ioreader"], "thorough": ["c08q_ioreader", "c08t_ioreader", "c08q_in_tup3", "c08q_in_vec_opt_2", "c08q_bytes"]})],
        bounds="ALL byte strings of symbolic length <= size+1 for every fixed-shape type; containers with <= 3 elements; input stacks: &[u8], unknown-length, CountedInput / depth-limit(u32::MAX) / mem-limit(usize::MAX) in every order the API allows up to depth 3, decode_from_bytes incl. zero-copy Bytes, IoReader over a reader delivering symbolic-size short chunks (std configuration)",
        outside="I/O errors other than EOF from a reader",
        explanation="the same symbolic bytes decoded through every input stack: identical Ok/Err, equal values, equal bytes consumed."),
    "C09": dict(runs=std_runs(9, stubbing=True),
        bounds="hostile counts (63 through a one-byte prefix for every container; 2^14, 2^30, 2^32-1, usize::MAX/8 through decode_vec_with_len) at outer and inner nesting positions, <= 9 payload bytes, slice-like and unknown-length inputs; allowance per harness: 64 B (+ k x input) on slice-like inputs, 16 KiB + 64 B per nesting level on unknown-length / element-path inputs",
        outside="counts/lengths beyond the shapes; allocation alignment (not modelled by Kani); payloads of 64 KiB",
        explanation="std's allocation entry points are replaced (-Z stubbing) by stateless versions asserting size <= allowance and delegating to Kani's allocator model, so EVERY heap request made while decoding is checked; self-tests and a negative twin prove the assertion is live; no-stub twins guard against stub artefacts.",
        assumptions=["stubs: alloc::alloc::{alloc, alloc_zeroed, realloc, realloc_nonnull} -> allowance-asserting versions delegating to __rust_alloc/__rust_alloc_zeroed/__rust_realloc"]),
    "C10": dict(runs=std_runs(10, stubbing=True),
        bounds="[T;N] N<=4, Box<T>, Box<[T;3]>, Rc/Arc<[T;2]>, Vec (<=3), VecDeque, tuples, nested arrays, Vec of arrays, derived struct/enum, repr(transparent) newtypes (array, boxed): symbolic failing element x symbolic truncation; LinkedList (<=2): concrete failing index and length, enumerated; zero-sized element types with a Drop impl; a refused Box allocation is never made (allocator stubs); failure kinds: input exhausted, malformed element, depth-limit and mem-limit errors (symbolic limits)",
        outside="panic in an element decoder (Kani models panic as abort: unwinding is not executed); N up to 40 (same loop body); BTreeMap/BTreeSet with ledger elements (std bulk build + sort with a droppable element: CBMC out of memory/time)",
        explanation="ledger element type: every construction and drop is recorded and asserted (built exactly once, dropped exactly once, nothing leaked), while CBMC checks double free / use of dead objects / dealloc layout on every pointer operation of the real decode paths (Box::decode_wrapped raw alloc, array State guard, repr(transparent) casts)."),
    "C11": simple(11,
        bounds="all byte strings up to the listed lengths x symbolic limit 0..=8 for Box/Rc/Arc nests to depth 3, Vec/VecDeque/LinkedList/BTreeMap/BTreeSet/BinaryHeap with <= 2 elements, siblings (tuple, array), recursive derived Tree (<= 6 bytes) and List; one inductive step of the real depth tracker from an ARBITRARY (depth, max) state and decode-from-any-state == fresh decode with budget max-depth (source hook)",
        outside="recursion through Vec<Self> (times out at 3 bytes); actual stack consumption on 10^6-deep input (no stack model): decided only in the proxy form 'recursion is cut at depth max+1'",
        explanation="r1 = decode_with_depth_limit(lim) vs r0 = decode on the same bytes: r1 Ok => equal; r0 Err => r1 Err; r0 Ok(v) => (r1 Ok <=> lim >= model depth(v)), which is also monotonicity."),
    "C12": dict(runs=std_runs(12, stubbing=True),
        bounds="tracker arithmetic for 3 announcements of arbitrary usize sizes under an arbitrary limit (inductive step from any state); threshold on all byte strings of the listed lengths x limit over ALL usize for Box/Rc/Arc, Vec (bulk and element path), VecDeque, String, LinkedList, BTreeMap/Set (1-2 entries), tuples; hook arguments for EVERY count in u32 (decode aborted at the first announcement)",
        outside="values larger than the shapes; derived types beyond the generated family",
        explanation="U = usage recorded by a logging input on the unlimited decode; decode_with_mem_limit(L): Ok => same value; fails only if L <= U; succeeds if L > U; U >= model heap bytes of the value; U == 0 for heap-free values."),
    "C15": simple(15,
        bounds="prefix arithmetic for EVERY old count in u32 and EVERY batch size in usize via zero-sized items (the iteration over more than 3 unit items is elided in the harness's iterator: a unit encodes to nothing), Vec and VecDeque targets, incl. appends that skip a prefix width class; payload preservation for old <= 2 and batch <= 2 symbolic items of u8/u32/Option/Vec<u8>/String/Compact; 63->64 with a 63-byte symbolic payload; garbage prefixes: all strings <= 5 bytes; two appends == one append",
        outside="payload-carrying vectors at the 2^14 and 2^30 boundaries (the copy is one extend_from_slice independent of the count)",
        explanation="real EncodeAppend::append_or_new vs. the reference encoding of the concatenated sequence; an iterator with a symbolic length whose next() asserts it is never called when the combined count is unrepresentable."),
    "C17": dict(level="other", runs=std_runs(17), pre=[["python3", "tools/lift_constfn.py"]], post="c17",
        level_text="Reduced claim. Solver part: the index-validity kernel (search_for_invalid_index / duplicate_info) is lifted verbatim from the REAL macro expansion on every run and decided by Kani over all usize index arrays of size 1..5; translation validation: the lifted `indices` tables equal attribute > discriminant > position-among-non-skipped for 5 template enums and the guarded panic blocks exist in both the Encode and Decode expansion; validation against the real compiler: 20 twin programs (faulty / minimally different valid) must be rejected / accepted. The compile-outcome clauses for arbitrary programs are outside what a solver over program text can decide.",
        technique="Kani/CBMC on the const-fn kernel lifted from the real macro expansion + translation validation of the lift + twin programs compiled against /repo",
        bounds="kernel: all usize index arrays of size 1..=5 (quick) and 8 (thorough)",
        outside="256-variant cap, and 'every fault-free definition compiles' for arbitrary definitions: outcomes of compiling concrete programs (only the 20 twins are compiled)",
        explanation="C17 quantifies over programs; the accept/reject decision is taken by rustc running the proc-macro on program text and by its const evaluator on literal indices. Decided here: the kernel that carries the logic (solver, all index arrays up to 5 variants), its faithful extraction (translation validation), and agreement of 20 concrete twin programs with the real compiler."),
})

# C20: the configuration-independent reference model ties the configurations together: enc_X(v) == spec(v) in every X gives
# enc_X == enc_Y; likewise accept/reject and values. The no-std configuration is what C01/C03/C04 run; here the same
# harness sets are decided under std (+chain-error, io::Write blanket Output), no-std + chain-error, and with every optional
# integration switched off.
_C20_CORE = ["c03q_duration", "c03q_bool", "c03q_optionbool", "c03q_nz_u32", "c03q_opt_opt_bool", "c03q_vec_u8_3", "c03q_vec_opt_2", "c03q_string_3", "c03q_vec_u8_max", "c03q_string_63", "c03q_res_u8_u16", "c03q_opt_u32",
             "c03q_vec_unit_3", "c01q_vec_unit_3", "c03q_unit", "c03q_phantom", "c03q_vec_optbool_2", "c01q_count_boundary_vec_u8", "c01q_count_u32_max_prefix",
             "c01q_u32", "c01q_f64", "c01q_compact_u64", "c01q_opt_u32", "c01q_vec_u8_3", "c01q_vec_opt_3", "c01q_string_3", "c01q_duration", "c04q_enc_u32", "c04q_dec_u32"]
_C20_MORE = ["c01q_i64", "c01q_res_opt", "c01q_tup3", "c01q_arr_opt_3", "c01q_vec_u32_2", "c01q_vec_vec_2", "c01q_deque_u32_2", "c01q_list_u8_3", "c01q_box_vec", "c01q_nz_u32", "c01q_borrowed_forms",
             "c03q_u16", "c03q_res_opt_compact", "c03q_tup3", "c03q_arr_opt_3", "c03q_box_u32", "c03q_vec_u32_2", "c03q_list_u8_2", "c04q_enc_u128", "c04q_width_u16_u32"]
PROPS["C20"] = dict(
    runs=[
        # (error paths that chain descriptions make the hostile element-path count queries time out under chain-error: left to the no-std run)
        dict(features=["c01", "c03", "c04"], cfg="std", filters={"quick": _C20_CORE + _C20_MORE, "thorough": names(["c01q_", "c03q_", "c04q_"], exclude=["vec_opt_max", "vec_bool_2p14", "derived_", "_map_", "_set_"])}),
        dict(features=["c01", "c03", "c04"], cfg="chain", filters={"quick": _C20_CORE, "thorough": names(["c01q_", "c03q_", "c04q_"], exclude=["vec_opt_max", "vec_bool_2p14", "derived_", "_map_", "_set_"])}),
        dict(features=["c01", "c03", "c04"], cfg="nostd", noext=True, filters={"quick": _C20_CORE, "thorough": ["c01q_", "c03q_", "c04q_"]}),
        dict(features=["c07", "c08", "c12"], cfg="std", stubbing=True, filters={"quick": ["c07q_ent_vec_opt_2", "c07q_ent_u32", "c07q_ent_string_2", "c07q_iow_vec_u16_3", "c08q_bytes", "c12q_ml_box_u64", "c12q_ml_vec_u32_2"],
                                                               "thorough": names(["c07q_ent_"], exclude=["range_compact", "range_incl_compact", "compact_u", "map_", "derived_"]) + ["c07q_iow", "c08q_in_tup3", "c08q_in_vec_opt_2", "c08q_bytes", "c12q_ml_box", "c12q_ml_vec_u32_2", "c12q_ml_rc_arr", "c12q_tracker"]}),
        # decode outcomes under limits and through the shared byte buffer are part of "the accept/reject decision": same harnesses in the no-std configurations
        dict(features=["c08", "c12"], cfg="chain", stubbing=True, filters={"quick": ["c08q_bytes", "c12q_ml_box_u64", "c12q_ml_vec_u32_2", "c12q_ml_arc_u16"], "thorough": ["c08q_bytes", "c12q_ml_box", "c12q_ml_vec_u32_2", "c12q_ml_rc_arr", "c12q_ml_arc_u16", "c12q_tracker"]}),
        dict(features=["c08", "c12"], cfg="nostd", stubbing=True, filters={"quick": ["c08q_bytes", "c12q_ml_box_u64", "c12q_ml_arc_u16"], "thorough": ["c08q_bytes", "c12q_ml_box", "c12q_ml_rc_arr", "c12q_ml_arc_u16"]}),
        # EncodeAppend carries configuration-specific code paths of its own: the same harnesses under every configuration
        dict(features=["c15"], cfg="std", filters={"quick": ["c15q_zst_every_count_vec", "c15q_pay_vec_1_1", "c15q_pay_u8_2_2"], "thorough": ["c15q_"]}),
        dict(features=["c15"], cfg="chain", filters={"quick": ["c15q_zst_every_count_vec", "c15q_pay_vec_1_1"], "thorough": ["c15q_"]}),
        dict(features=["c15"], cfg="nostd", noext=True, filters={"quick": ["c15q_zst_every_count_vec", "c15q_pay_vec_1_1", "c15q_pay_u8_2_2"], "thorough": ["c15q_"]}),
        dict(features=["c20", "big"], cfg="nostd", stubbing=True, jobs=2, mem_gb=28, harness_timeout=1500, timeout=7200, filters={"quick": [], "thorough": ["c20h_"]}),
        dict(features=["c20", "big"], cfg="std", stubbing=True, jobs=2, mem_gb=28, harness_timeout=1500, timeout=7200, filters={"quick": [], "thorough": ["c20h_"]}),
    ],
    bounds="the quick harness sets of C01 (encode == model), C03 (decode == model) and C04 (compact) -- a representative third of them in the quick tier, all of them in the thorough tier -- decided in {std + chain-error (default), no-std + chain-error, no default features with every optional integration off}; the no-std + integrations configuration is what C01/C03/C04 themselves run; C07 entry points (io::Write blanket Output) under std",
    outside="fuzz/arbitrary feature (adds derives on Compact only), `full` (no-op), serde (not on the wire path)",
    explanation="By transitivity through the configuration-independent reference model: for all v: enc_X(v) == spec(v) in every configuration X gives enc_X == enc_Y, and likewise accept/reject and decoded values. Only is_ok()/is_err() of errors is compared, never their descriptions.",
)

PROPS["C20"]["pre"] = GEN_BOTH
PROPS["C10"]["pre"] = GEN_DERIVE
for _k in ("C08", "C11", "C12", "C14", "C18", "C19"):
    PROPS[_k]["pre"] = GEN_BOTH
PROPS["C11"]["runs"].append(dict(features=["c11"], cfg="nostd", stubbing=True, filters={"quick": ["c11s_"], "thorough": ["c11s_"]}))
for _k in ("C14", "C18"):
    PROPS[_k]["runs"].append(dict(features=[_k.lower()], cfg="std", jobs=8, harness_timeout=2400, timeout=7200, filters={"quick": [_k.lower() + "q_ioreader"], "thorough": [_k.lower() + "q_ioreader", _k.lower() + "t_ioreader"]}))

# additions after seeded-change rounds 3 and 4 (appended to the bounds of the properties they extend)
_MORE_BOUNDS = {
    "C01": "the count 2^32-1 (five-byte prefix; slice of unit values, sink cuts after the prefix); sequences/arrays of pointer-wrapped primitives (&u32, Box<u16>, Rc<u8>, Arc<i8>, &f32); every small derived struct as a Vec/array ELEMENT; always-quick matrix cells",
    "C02": "every small derived struct as a Vec element (round trip)",
    "C03": "BitVec: a bit count above 2^29-1 is rejected before any allocation is announced; always-quick matrix cells (zero-sized-with-encoding and unit elements in every sequence container)",
    "C05": "explicit discriminants on field-carrying variants (#[repr(u8)]); in-place decode (Box, array) keeps #[codec(skip)] defaults, incl. a transparent struct whose only sized field is skipped; variants with equal field types but different attributes",
    "C07": "non-ASCII str/String through every entry point; decode side of the bulk paths (arrays/Vec/VecDeque of bool, OptionBool, NonZeroU8, Option<()> accept exactly what their elements accept)",
    "C08": "IoReader over streams of symbolic length <= 5 that end anywhere, symbolic chunk size (std run); [Duration; N] and [OptionBool; 3] over slice vs unknown-length; zero-width values from an empty input of every kind incl. the shared buffer",
    "C09": "`skip` on hostile counts (63 and 2^26; slice-like and unknown-length); hostile counts through MemTrackingInput (generous limit) and CountedInput, and through decode_with_mem_limit/decode_with_depth_limit with wide elements; fixed-size element types (bool, [u16;2], nested arrays) on unknown-length inputs at 2^26; BitVec: no heap request before the data is known to be present (allowance 0), 2^29-1 bits with 3 payload bytes",
    "C10": "heap BLOCKS: counting allocator stubs -- after a failed decode, and after dropping a decoded value, no block is live (Rc/Arc/Box, tuples of boxes, Vec<Box>, LinkedList, VecDeque<Rc>); ledger element that reports a fixed encoded size; Box/Rc/Arc of a zero-sized element with Drop; derived transparent types through in-place decode",
    "C11": "a vector decoded across two preallocation chunks (8 KiB elements; stubbed run) is one level, under the hook log and under limit 1; a depth tracker nested inside another: siblings do not accumulate",
    "C12": "the same limit underneath decode_with_depth_limit and CountedInput accepts/rejects exactly like decode_with_mem_limit; LinkedList of elements wider than a pointer in the every-count hook check",
    "C13": "user type whose wire size (5) differs from its memory size (8), alone and in (nested) arrays; Result/Option/tuples/Rc/Vec/Duration arrays in the fixed-size list (Some(k) => every value encodes to k bytes); encoded_fixed_size of every derived family member; enums whose variants share field types but differ in attributes",
    "C14": "every strict prefix fails AND the full encoding followed by two arbitrary bytes is consumed exactly; Compact<u8/u16/u32> alone; IoReader on streams that end anywhere (std run); containers (Vec, VecDeque, LinkedList, BinaryHeap, BTreeSet, BTreeMap) of empty-encoding items decode from exactly their count byte; transparent derived types behind Box",
    "C16": "every pair also through using_encoded; arrays of primitives in pointer forms (&, Box, Rc, Arc, array of refs, nested); str/String/Cow/Rc<String> of 63/64/65 bytes through every entry point; containers of empty-encoding elements",
    "C18": "skip == decode through IoReader on streams that end anywhere (std run); every derived family member (skip vs decode over all byte strings)",
    "C19": "skip through the counting input; inner input of unknown length with truncated data; sequences of reads/decodes on one counting input with a failure in between (success after failure is still counted)",
    "C20": "EncodeAppend (C15 harnesses) in std, no-std + chain-error and with every optional integration off; Result/unit/phantom/zero-sized containers and the count boundaries in the core list that runs in every configuration",
}
for _k, _v in _MORE_BOUNDS.items():
    PROPS[_k]["bounds"] = PROPS[_k]["bounds"] + "; ADDED AFTER SEEDED ROUNDS 3-4: " + _v
_MORE_OUTSIDE = {
    "C01": "owned BitVec values with stale bits behind their end and BitBox values that start inside a storage word (bitvec's owned-buffer paths: no result within 2400 s)",
    "C02": "strings longer than a 16 KiB read chunk (UTF-8 validation of 64 symbolic bytes already exceeds 400 s)",
    "C06": "owned BitVec / BitBox values (see C01)",
    "C18": "strings longer than 128 bytes with a multi-byte character at a window edge",
    "C19": "a single read of >= 2^32 bytes (object size limit of the engine)",
    "C20": "state left behind by a PANICKING closure (Kani models panic as abort)",
}
for _k, _v in _MORE_OUTSIDE.items():
    PROPS[_k]["outside"] = PROPS[_k]["outside"] + "; " + _v

HOOK_COMMITS = ["9ece5a5"]
NOT_APPLICABLE = {}
