#!/usr/bin/env python3
"""writes /verif/MANIFEST.json from tools/props.py (claimed) and properties.jsonl (the rest -> not_applicable)"""
import json, sys
from pathlib import Path
V = Path(__file__).resolve().parent.parent
sys.path.insert(0, str(V / "tools"))
import props
ids = [json.loads(l)["id"] for l in open(V / "properties.jsonl")]
checks = []
for i in ids:
    if i not in props.PROPS:
        continue
    p = props.PROPS[i]
    checks.append({
        "property_id": i,
        "quick_cmd": "python3 tools/check.py %s --tier quick" % i,
        "thorough_cmd": "python3 tools/check.py %s --tier thorough" % i,
        "evidence_file": "/verif/evidence/%s.json" % i,
        "replay_cmd_template": "python3 tools/check.py %s --replay {path}" % i,
        "engine": "kani-cbmc",
        "level_claimed": {"category": p.get("level", "model_checking"),
                          "text": p.get("level_text", "Bounded model checking of the real compiled code (Kani/CBMC): for each listed shape the SAT solver decides the assertion for ALL contents of that shape; unwinding assertions on. " + p.get("bounds", "")),
                          "design_ref": "DESIGN.md section 5, %s" % i},
        "level_note": p.get("level_note", "Trusted: Kani 0.68 MIR->goto translation, CBMC 6.11, cadical, Kani's allocator/std models; std/bitvec/bytes internals beyond the shapes reached. Outside the bound: " + p.get("outside", "")),
        "technique": p.get("technique", "Kani/CBMC bounded symbolic execution of /repo's compiled code against an independent SCALE reference model; SAT verdict per shape; counterexamples replayed natively (Kani concrete playback)"),
    })
na = [{"property_id": i, "reason": props.NOT_APPLICABLE.get(i, "not yet built in this session; no claim made")} for i in ids if i not in props.PROPS]
m = {
    "version": 1,
    "setup_cmd": "bash tools/setup.sh",
    "hooks": {"guard": "cfg(any(kani, parity_scale_codec_verif))", "enable": "cargo kani sets cfg(kani) for every crate it compiles, including /repo as a path dependency; native builds: RUSTFLAGS='--cfg parity_scale_codec_verif'",
              "baseline_off_cmd": "cd /repo && cargo test --workspace --no-fail-fast --offline", "source_commits": props.HOOK_COMMITS, "add_only": True},
    "engines": [{"name": "kani-cbmc", "path": "/verif/harness", "serves_properties": [c["property_id"] for c in checks],
                 "kind_free_text": "Kani 0.68 (rustc MIR -> CBMC 6.11 goto program, cadical/kissat SAT): #[kani::proof] harnesses in an out-of-tree crate with a path dependency on /repo"}],
    "checks": checks,
    "notes": "Exit 3 from a check = inconclusive (timeout / OOM / build failure / counterexample that does not reproduce natively); never a VIOLATION. known findings: /verif/known_findings.json",
    "not_applicable": na,
}
(V / "MANIFEST.json").write_text(json.dumps(m, indent=1) + "\n")
print("claimed:", [c["property_id"] for c in checks])
