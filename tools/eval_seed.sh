#!/bin/bash
# eval_seed.sh <ID> <k> <PROP>...   : apply /tmp/mut/out/<ID>/m<k>/patch.diff in the scratch worktree /tmp/mut/<ID>, run the listed checks
# (quick tier) against THAT worktree through tools/seedrun.py, revert the worktree, remove the scratch build. Result: /tmp/mut/out/<ID>/m<k>/eval.txt
ID=$1; K=$2; shift 2
WT=${SEED_WT:-/tmp/mut/$ID}; D=${SEED_OUT:-/tmp/mut/out}/$ID/m$K; SC=/tmp/seedrun/$(basename ${SEED_OUT:-out})-$ID-m$K
TIER=${SEED_TIER:-quick}
cd $WT && git checkout -q -- . && git apply $D/patch.diff || { echo "cannot apply" > $D/eval.txt; exit 2; }
{
echo "== $(date -u) $ID m$K props: $* tier: $TIER"
python3 ${VERIF_ROOT:-/verif}/tools/seedrun.py $WT $SC "$@" --tier $TIER 2>&1 | grep -E "VIOLATION|KNOWN-FINDING|INCONCLUSIVE|counterexample|native replay|seedrun:|harnesses held" 
} > $D/eval.txt 2>&1
cd $WT && git checkout -q -- .
rm -rf $SC/build $SC/harness/target
echo "evaluated $ID m$K: $(grep -c VIOLATION $D/eval.txt) violation lines"
