#!/usr/bin/env python3
"""regenerates the data-driven parts of DESIGN.md (between the AUTO markers): section 13 table (seeded changes) and section 14 (as built per property)"""
import subprocess, re
from pathlib import Path
V = Path(__file__).resolve().parent.parent
d = (V / "DESIGN.md").read_text()
tab = subprocess.run(["python3", str(V / "tools" / "seeded_table.py")], capture_output=True, text=True).stdout
props = subprocess.run(["python3", str(V / "tools" / "design_props.py")], capture_output=True, text=True).stdout
def put(d, name, body):
    a, b = "<!-- AUTO:%s:BEGIN -->" % name, "<!-- AUTO:%s:END -->" % name
    if a not in d:
        return d
    return d[:d.index(a) + len(a)] + "\n" + body.rstrip() + "\n" + d[d.index(b):]
d = put(d, "SEEDED", tab)
d = put(d, "PROPS", props)
(V / "DESIGN.md").write_text(d)
print("DESIGN.md updated")
