#!/bin/bash
# confirm a seeded change in ITS scratch worktree: suite passes with it (3 known-bad UI binaries ignored), demo fails with it, demo passes without it
# usage: confirm_seed.sh <worktree> <dir with patch.diff demo.rs> ; writes <dir>/confirm.txt
WT=$1; D=$2
cd $WT || exit 2
git checkout -q -- . ; git clean -fdq -e target
export CARGO_NET_OFFLINE=true
{
echo "== $(date -u) worktree $WT @ $(git rev-parse --short HEAD)"
git apply --check $D/patch.diff && git apply $D/patch.diff || { echo "PATCH DOES NOT APPLY"; exit 2; }
cp $D/demo.rs tests/zz_seed_demo.rs
echo "-- suite with change:"
cargo test --workspace --no-fail-fast --offline 2>&1 | grep -E "^test result|^error: test failed|FAILED" | grep -v "zz_seed_demo" | sort | uniq -c
echo "-- demo with change (expect failure):"
cargo test --offline --features derive,max-encoded-len,bit-vec,bytes,generic-array --test zz_seed_demo 2>&1 | grep -E "^test result|^test .* (FAILED|ok)|could not compile|^error" | head -20
git checkout -q -- . 
echo "-- demo without change (expect pass):"
cargo test --offline --features derive,max-encoded-len,bit-vec,bytes,generic-array --test zz_seed_demo 2>&1 | grep -E "^test result|could not compile|^error" | head -5
rm -f tests/zz_seed_demo.rs
git checkout -q -- . ; git clean -fdq -e target
} > $D/confirm.txt 2>&1
