#!/usr/bin/env python3
"""Driver: decide one property with Kani/CBMC over /repo's current working tree.

  check.py <ID> --tier quick|thorough
  check.py <ID> --replay <replay-file>

Exit 0: held on everything explored.  Exit 1 + "VIOLATION property=<id> replay=<path>": a
solver counterexample that reproduced natively against the real build and is not a listed known
finding.  Exit 3: inconclusive (timeout, out of memory, build failure, unsatisfied reachability
witness, counterexample that does not reproduce natively) -- never reported as a violation and
never as "held".
"""
import argparse, hashlib, json, os, re, shutil, subprocess, sys, time
from pathlib import Path

VERIF = Path(__file__).resolve().parent.parent
# Scratch evaluation of seeded changes (tools/seedrun.py) redirects these to a private copy whose path dependency points
# at a scratch worktree; registered checks never set them and always build /repo itself.
HARNESS = Path(os.environ.get("VERIF_HARNESS_DIR", VERIF / "harness"))
BUILD = Path(os.environ.get("VERIF_BUILD_DIR", VERIF / ".build"))
EVID = Path(os.environ.get("VERIF_EVIDENCE_DIR", VERIF / "evidence"))
REPLAYS = Path(os.environ.get("VERIF_REPLAYS_DIR", VERIF / "replays"))
sys.path.insert(0, str(VERIF / "tools"))
import props  # noqa: E402

ENV = dict(os.environ, CARGO_NET_OFFLINE="true", CARGO_TERM_COLOR="never")


def _watchdog(pgid, limit_kb, stop, killed):
    """kill any cbmc process of our process group whose resident set exceeds the cap (ulimit -v would also hit kani-driver,
    which keeps every check of every harness in memory for --export-json and died of it at ~120 harnesses)"""
    while not stop.is_set():
        try:
            out = subprocess.run(["ps", "-eo", "pid,pgid,rss,comm"], capture_output=True, text=True).stdout
            for line in out.splitlines()[1:]:
                f = line.split(None, 3)
                if len(f) == 4 and f[1] == str(pgid) and f[3].strip().startswith("cbmc") and int(f[2]) > limit_kb:
                    try:
                        os.kill(int(f[0]), 9)
                        killed.append((int(f[0]), int(f[2])))
                    except ProcessLookupError:
                        pass
        except Exception:
            pass
        stop.wait(2.0)


def sh(cmd, log, timeout=None, mem_gb=None, stack_unlimited=False, cwd=HARNESS):
    """run through bash in its own process group; cbmc children are capped at mem_gb of RESIDENT memory by a watchdog"""
    import threading
    pre = []
    if stack_unlimited:
        pre.append("ulimit -s unlimited")
    line = "; ".join(pre + [" ".join(cmd)])
    t0 = time.time()
    with open(log, "w") as f:
        f.write("$ " + line + ("   # cbmc RSS cap %s GB" % mem_gb if mem_gb else "") + "\n")
        f.flush()
        # own process group, so that a timeout kills cargo, kani-driver, cbmc and test binaries alike
        p = subprocess.Popen(["bash", "-c", line], cwd=cwd, env=ENV, stdout=f, stderr=subprocess.STDOUT, start_new_session=True)
        stop, killed = threading.Event(), []
        if mem_gb:
            th = threading.Thread(target=_watchdog, args=(p.pid, int(mem_gb * 1024 * 1024), stop, killed), daemon=True)
            th.start()
        try:
            rc = p.wait(timeout=timeout)
        except subprocess.TimeoutExpired:
            rc = -9
            try:
                os.killpg(p.pid, 9)
            except ProcessLookupError:
                pass
            p.wait()
        stop.set()
        if killed:
            f.write("\n[watchdog] killed cbmc processes above the %s GB resident cap: %s\n" % (mem_gb, killed))
    return rc, time.time() - t0


def features_of(run):
    f = list(run.get("features", []))
    if not run.get("noext"):
        f.append("ext")
    cfg = run.get("cfg", "nostd")
    if cfg == "std":
        f.append("cfg_std")
    elif cfg == "chain":
        f.append("cfg_chain")
    return f


def kani_cmd(run, filters, tdir, extra=()):
    cmd = ["cargo", "kani", "--features", ",".join(features_of(run)), "--target-dir", str(tdir)]
    for h in filters:
        cmd += ["--harness", h]
    if run.get("stubbing"):
        cmd += ["-Z", "stubbing"]
    if run.get("solver"):
        cmd += ["--solver", run["solver"]]
    cmd += list(extra)
    return cmd


def harness_short(h):
    return h.split("::")[-1]


def classify(name):
    m = re.match(r"c\d\d([a-z])_", harness_short(name))
    return m.group(1) if m else "?"


def repo_functions(checks):
    fns = set()
    for c in checks:
        loc = c.get("location") or {}
        f = loc.get("file", "")
        if "/repo/" in f or f.startswith("/repo"):
            fns.add("%s (%s)" % (c.get("function", "?"), f.split("/repo/")[-1]))
    return fns


def run_kani(prop, run, tier, idx, workdir):
    """one run of the table = one or more cargo-kani invocations (batches of at most BATCH harnesses: kani-driver keeps every
    check of every harness in memory for --export-json and was measured to die of its own memory limit at ~120 harnesses)"""
    filters = run["filters"][tier]
    if not filters:
        return [], {"skipped": True}
    expanded = props.names(filters)
    BATCH = 100000  # batching disabled: the memory cap is now enforced per cbmc process by an RSS watchdog (see sh()), not by ulimit -v on the whole tree
    if len(expanded) <= BATCH:
        return run_kani_batch(prop, run, tier, "%d" % idx, workdir, filters)
    all_res, metas, seen = [], [], set()
    for b in range(0, len(expanded), BATCH):
        res, meta = run_kani_batch(prop, run, tier, "%d_%d" % (idx, b // BATCH), workdir, expanded[b:b + BATCH])
        metas.append(meta)
        if res is None:
            return None, meta
        for r in res:
            key = r["harness"]
            if key not in seen:  # a name that is a prefix of another one matches in two batches
                seen.add(key)
                all_res.append(r)
    meta = dict(metas[0])
    meta["cmd"] = metas[0].get("cmd", "") + "  (+%d more batches of <= %d harnesses)" % (len(metas) - 1, BATCH)
    meta["wall_s"] = round(sum(m.get("wall_s", 0) for m in metas), 1)
    meta["n_harnesses"] = len(all_res)
    return all_res, meta


def run_kani_batch(prop, run, tier, idx, workdir, filters):
    tdir = BUILD / ("target-%s" % run.get("cfg", "nostd"))  # shared by all properties: dependencies are built once per configuration
    out_json = workdir / ("run%s.json" % idx)
    log = workdir / ("run%s.log" % idx)
    jobs = run.get("jobs", 12)
    cmd = kani_cmd(run, filters, tdir, ["-j", str(jobs), "--output-format", "terse", "-Z", "unstable-options",
                                        "--export-json", str(out_json), "--harness-timeout", "%ds" % run.get("harness_timeout", 600)])
    rc, wall = sh(cmd, log, timeout=run.get("timeout", 3600), mem_gb=run.get("mem_gb", 12), stack_unlimited=True)  # CBMC segfaults on 8 KiB+ objects with the default stack
    meta = {"cmd": " ".join(cmd), "rc": rc, "wall_s": round(wall, 1), "log": str(log), "cfg": run.get("cfg", "nostd")}
    if not out_json.exists():
        meta["error"] = "no result file (build failure, timeout or crash); see log"
        return None, meta
    d = json.load(open(out_json))
    pd = {x["harness_id"]: x["property_details"] for x in d.get("property_details", [])}
    cb = {x["harness_id"]: x for x in d.get("cbmc", [])}
    ed = {x["harness_id"]: x for x in d.get("error_details", [])}
    expected = {x["pretty_name"] for x in d.get("harness_metadata", [])}
    res = []
    seen = set()
    for r in d.get("verification_results", {}).get("results", []):
        h = r["harness_id"]
        seen.add(h)
        checks = r.get("checks", [])
        failed = [c for c in checks if c.get("status") in ("Failure", "FAILURE")]
        undet = [c for c in checks if c.get("status") in ("Undetermined", "UNDETERMINED")]
        covers = [c for c in checks if c.get("category") == "cover" or (c.get("description", "").startswith("cover "))]
        unsat_cov = [c for c in checks if c.get("status") in ("Unsatisfiable", "UNSATISFIABLE", "Uncovered", "Unreachable") and c.get("category") == "cover"]
        res.append({
            "harness": h, "status": r.get("status"), "duration_ms": r.get("duration_ms"),
            "props": pd.get(h, {}), "stats": (cb.get(h, {}) or {}).get("cbmc_stats", {}),
            "failed": [{"description": c.get("description"), "function": c.get("function"), "location": c.get("location"), "category": c.get("category")} for c in failed],
            "undetermined": len(undet), "unsat_covers": [c.get("description") for c in unsat_cov],
            "error": ed.get(h, {}), "repo_functions": sorted(repo_functions(checks)),
            "features": features_of(run), "stubbing": bool(run.get("stubbing")), "cfg": run.get("cfg", "nostd"),
        })
    for h in expected - seen:
        res.append({"harness": h, "status": "Missing", "props": {}, "stats": {}, "failed": [], "undetermined": 0, "unsat_covers": [],
                    "error": ed.get(h, {}), "repo_functions": [], "features": features_of(run), "stubbing": bool(run.get("stubbing")), "cfg": run.get("cfg", "nostd")})
    meta["tools"] = d.get("tools", {})
    meta["n_harnesses"] = len(expected)
    return res, meta


PB_RE = re.compile(r"Concrete playback unit test for `([^`]+)`:\s*```\n(.*?)```", re.S)


def make_replay(prop, run, h, workdir):
    """re-run one failed harness alone with concrete playback; write the replay file; run it natively.
    returns (replay_path or None, reproduced: bool|None, detail)"""
    tdir = BUILD / ("target-%s" % run.get("cfg", "nostd"))  # shared by all properties: dependencies are built once per configuration
    log = workdir / ("replay-%s.log" % harness_short(h))
    cmd = kani_cmd(run, [h], tdir, ["--exact", "-Z", "concrete-playback", "--concrete-playback=print"])
    # one process at a time here and concrete playback disables formula slicing: give it more memory than a parallel run gets
    rc, wall = sh(cmd, log, timeout=run.get("timeout", 3600), mem_gb=max(run.get("mem_gb", 12), 30), stack_unlimited=True)
    txt = open(log, errors="replace").read()
    tests = PB_RE.findall(txt)
    if not tests:
        # fall back to the canned native witness of the same name (src/witness.rs), if there is one
        hs = harness_short(h)
        wsrc = (HARNESS / "src" / "witness.rs").read_text() if (HARNESS / "src" / "witness.rs").exists() else ""
        if ("pub fn witness_%s()" % hs) in wsrc:
            REPLAYS.mkdir(exist_ok=True)
            path = REPLAYS / ("%s-%s-witness.rs" % (prop, hs))
            feats_for_replay = features_of(run) + (["pb_alloc"] if run.get("stubbing") else [])
            path.write_text("// replay for property %s, harness %s (canned native witness: the solver's values could not be extracted)\n// features: %s\n// run: tools/check.py %s --replay %s\n"
                            "#[test]\nfn kani_concrete_playback_witness_%s() { crate::witness::witness_%s() }\n" % (prop, h, ",".join(feats_for_replay), prop, path, hs, hs))
            ok, detail = run_replay(path, workdir)
            return path, ok, "canned witness: " + str(detail)
        return None, None, "no concrete playback produced (see %s)" % log
    REPLAYS.mkdir(exist_ok=True)
    body = []
    names = []
    # tests labelled with a cover check are witnesses of satisfied covers, not counterexamples -- unless Kani merged the
    # counterexample into one of them (it prints one test per distinct value vector): then they are all there is, and
    # the native run decides
    only_cover = all("Check for `cover`" in code for _, code in tests)
    for full, code in tests:
        if "Check for `cover`" in code and not only_cover:
            continue
        mod = "::".join(full.split("::")[:-1])
        fn = full.split("::")[-1]
        code = re.sub(r"concrete_playback_run\(concrete_vals, %s\)" % re.escape(fn), "concrete_playback_run(concrete_vals, crate::%s::%s)" % (mod, fn), code)
        m = re.search(r"fn (kani_concrete_playback_\w+)", code)
        if m and m.group(1) not in names:
            names.append(m.group(1))
            body.append(code)
    hsh = hashlib.sha1("".join(body).encode()).hexdigest()[:10]
    path = REPLAYS / ("%s-%s-%s.rs" % (prop, harness_short(h), hsh))
    if not body:
        return None, None, "no counterexample test produced (see %s)" % log
    feats_for_replay = features_of(run) + (["pb_alloc"] if run.get("stubbing") else [])
    header = "// replay for property %s, harness %s\n// features: %s\n// run: tools/check.py %s --replay %s\n#[allow(unused_imports)]\nuse alloc::{vec, vec::Vec};\n" % (prop, h, ",".join(feats_for_replay), prop, path)
    path.write_text(header + "\n".join(body))
    ok, detail = run_replay(path, workdir)
    return path, ok, detail


def run_replay(path, workdir):
    """native execution of the solver's values against the real build (Kani concrete playback:
    the harness is compiled natively with the real /repo sources and kani::any() is fed the values).
    Stubs are NOT applied natively; allocator-allowance harnesses install a real global allocator wrapper
    (feature `pb_alloc`)."""
    txt = Path(path).read_text()
    m = re.search(r"// features: (.*)", txt)
    feats = [f for f in (m.group(1).split(",") if m else []) if f]
    names = re.findall(r"fn (kani_concrete_playback_\w+)", txt)
    shutil.copy(path, HARNESS / "src" / "pb.rs")
    results = []
    for profile in ("dev", "release"):
        log = Path(workdir) / ("playback-%s-%s.log" % (Path(path).stem, profile))
        cmd = ["cargo", "kani", "playback", "-Z", "concrete-playback", "--features", ",".join(feats + ["pb"])]
        cmd += ["--", "--test-threads", "1"] + names
        if profile == "release":  # `cargo kani playback` has no --release: give the test profile release settings instead
            cmd = ["env", "CARGO_PROFILE_DEV_OPT_LEVEL=3", "CARGO_PROFILE_DEV_DEBUG_ASSERTIONS=false", "CARGO_PROFILE_DEV_OVERFLOW_CHECKS=false",
                   "CARGO_PROFILE_TEST_OPT_LEVEL=3", "CARGO_PROFILE_TEST_DEBUG_ASSERTIONS=false", "CARGO_PROFILE_TEST_OVERFLOW_CHECKS=false"] + cmd
        rc, wall = sh(cmd, log, timeout=600, mem_gb=None)
        out = open(log, errors="replace").read()
        built = "running " in out
        failed = bool(re.search(r"test result: FAILED|panicked at|SIGABRT|SIGSEGV|stack overflow|signal: \d+", out)) and built
        results.append((profile, built, failed, rc, str(log)))
    (HARNESS / "src" / "pb.rs").write_text("// placeholder; overwritten by tools/check.py when replaying\n")
    if not any(b for _, b, _, _, _ in results):
        return None, "playback build failed: %s" % results
    return any(f for _, _, f, _, _ in results), "; ".join("%s: %s (rc=%s) %s" % (p, "FAILED-as-expected" if f else "passed", rc, l) for p, b, f, rc, l in results)


def load_known():
    p = VERIF / "known_findings.json"
    if p.exists():
        return json.load(open(p)).get("findings", [])
    return []


def match_known(prop, res, known):
    """a failure is a known finding only if the harness AND every failed check match one entry"""
    hs = harness_short(res["harness"])
    for k in known:
        if k["property"] != prop or not hs.startswith(k["harness_prefix"]):
            continue
        if all(any(s in (c["description"] or "") for s in k["check_contains"]) for c in res["failed"]):
            return k
    return None


def main():
    ap = argparse.ArgumentParser()
    ap.add_argument("prop")
    ap.add_argument("--tier", default=os.environ.get("VERIF_TIER", "quick"), choices=["quick", "thorough"])
    ap.add_argument("--replay")
    ap.add_argument("--only", help="restrict to runs whose filters contain this substring (debug)")
    ap.add_argument("--harness", help="debug: run only these harness name prefixes (comma separated) in every run of the property; evidence is NOT representative")
    a = ap.parse_args()
    a.only = a.only or os.environ.get("VERIF_ONLY")  # debugging / seeded-change evaluation of one run of a tier
    prop = a.prop.upper()
    seed = int(os.environ.get("VERIF_SEED", "0") or 0)
    workdir = BUILD / "logs" / ("%s-%s" % (prop, a.tier))
    shutil.rmtree(workdir, ignore_errors=True)
    workdir.mkdir(parents=True, exist_ok=True)

    if a.replay:
        ok, detail = run_replay(a.replay, workdir)
        print(detail)
        print("reproduced" if ok else ("not reproduced" if ok is False else "inconclusive"))
        sys.exit(1 if ok else (0 if ok is False else 3))

    cfgp = props.PROPS[prop]
    t0 = time.time()
    for g in cfgp.get("pre", []):
        rc, _ = sh(g, workdir / "pre.log", timeout=900, cwd=VERIF)
        if rc != 0:
            print("INCONCLUSIVE: generator failed, see", workdir / "pre.log")
            write_evidence(prop, a.tier, seed, cfgp, [], [], time.time() - t0, 0, ["generator failed"], [])
            sys.exit(3)

    all_res, metas, problems = [], [], []
    for idx, run in enumerate(cfgp["runs"]):
        if a.only and not any(a.only in f for f in run["filters"][a.tier]):
            continue
        if a.harness:
            run = dict(run, filters={a.tier: a.harness.split(",")})
        res, meta = run_kani(prop, run, a.tier, idx, workdir)
        metas.append(meta)
        if meta.get("skipped"):
            continue
        if res is None:
            problems.append("run %d: %s (%s)" % (idx, meta.get("error"), meta.get("log")))
            continue
        for r in res:
            r["_run"] = run
        all_res += res

    known = load_known()
    violations, known_hits, held, twins_ok = [], [], [], []
    for r in all_res:
        kind = classify(r["harness"])
        st = r["status"]
        if kind == "n":  # negative twin: must fail, on a harness assertion
            if st == "Failure" and r["failed"]:
                twins_ok.append(r["harness"])
            else:
                problems.append("negative twin %s did not fail (status %s): oracle not live" % (r["harness"], st))
            continue
        if st == "Success":
            if r["unsat_covers"]:
                real = [c for c in r["unsat_covers"] if "info:" not in (c or "")]
                if real:
                    problems.append("unsatisfied reachability witness in %s: %s" % (r["harness"], real))
                    continue
            if r["undetermined"]:
                problems.append("undetermined checks in %s" % r["harness"])
                continue
            held.append(r["harness"])
            continue
        if st == "Failure" and r["failed"]:
            k = match_known(prop, r, known)
            path, ok, detail = make_replay(prop, r["_run"], r["harness"], workdir)
            r["replay"] = {"path": str(path) if path else None, "reproduced": ok, "detail": detail}
            only_unwind = all("unwinding assertion" in (c["description"] or "") or "recursion" in (c["description"] or "") for c in r["failed"])
            if k is not None and ok:
                known_hits.append((k, r))
            elif ok:
                violations.append(r)
            else:
                problems.append("counterexample for %s did not reproduce natively%s: %s" % (
                    r["harness"], " (only unwinding assertions failed: bound too small for this code)" if only_unwind else "", detail))
            continue
        problems.append("harness %s: status %s %s" % (r["harness"], st, json.dumps(r.get("error", {}))))

    extra = {}
    if cfgp.get("post"):
        pv, pp, extra = POSTS[cfgp["post"]](workdir, a.tier)
        violations += pv
        problems += pp
    wall = time.time() - t0
    write_evidence(prop, a.tier, seed, cfgp, all_res, metas, wall, len(violations), problems, twins_ok, known_hits, extra)

    for k, r in known_hits:
        print("KNOWN-FINDING: property=%s %s [harness %s]" % (prop, k["what"], harness_short(r["harness"])))
    for r in violations:
        print("counterexample: %s %s: %s" % ("harness" if "::" in r["harness"] else "program", r["harness"], "; ".join(c["description"] or "" for c in r["failed"])))
        print("  native replay: %s" % r["replay"]["detail"])
        print("VIOLATION property=%s replay=%s" % (prop, r["replay"]["path"]))
    for p in problems:
        print("INCONCLUSIVE:", p)
    print("%s %s: %d harnesses held, %d negative twins failed as required, %d known findings, %d violations, %d inconclusive, %.0f s" % (
        prop, a.tier, len(held), len(twins_ok), len(known_hits), len(violations), len(problems), wall))
    if not os.environ.get("VERIF_KEEP_BUILD"):
        for run in cfgp["runs"]:
            pass  # build dirs are kept between properties of one session for speed; `tools/clean.sh` removes them
    if violations:
        sys.exit(1)
    if problems:
        sys.exit(3)
    sys.exit(0)


def post_c17(workdir, tier):
    """C17: (a) problems found while lifting the kernel from the real macro expansion; (b) twin programs compiled
    against /repo: the real compiler verdict must match the expected one (a mismatch is a concrete failing program)."""
    viol, probs, extra = [], [], {}
    lift = BUILD / "c17lift" / "lift.json"
    if lift.exists():
        rep = json.load(open(lift))
        extra["lift"] = {"sizes": rep.get("lifted_sizes"), "templates": {k: {"expected": v["expected"], "occurrences": v["occurrences"]} for k, v in rep.get("templates", {}).items()}}
        lift_problems = rep.get("problems", [])
    else:
        lift_problems = ["lift report missing"]
    log = workdir / "twins.log"
    rc, _ = sh(["python3", str(VERIF / "tools" / "c17_twins.py")], log, timeout=1800, cwd=VERIF)
    twins = []
    for line in open(log, errors="replace"):
        if line.startswith("{"):
            twins.append(json.loads(line))
    extra["twin_programs"] = twins
    extra["programs"] = len(twins)
    extra["disagreements_checked"] = len(twins)
    if not twins:
        probs.append("twin programs could not be compiled (see %s)" % log)
    bad = [t for t in twins if not t["agree"]]
    for t in bad:
        viol.append({"harness": t["name"], "failed": [{"description": "program %s: expected %s, real compiler %s" % (
            t["name"], "to compile" if t["expected_compiles"] else "a compile-time rejection", "accepted it" if t["compiles"] else "rejected it: " + t["diagnostic"])}],
            "replay": {"path": t["path"], "reproduced": True, "detail": "cargo build --bin %s in %s" % (t["name"], BUILD / "c17twins")}})
    # a damaged kernel that the twins do not expose is inconclusive, not a violation
    for lp in lift_problems:
        if not bad:
            probs.append("lift: " + lp)
    return viol, probs, extra


POSTS = {"c17": post_c17}


def write_evidence(prop, tier, seed, cfgp, all_res, metas, wall, nviol, problems, twins_ok, known_hits=(), extra=None):
    EVID.mkdir(exist_ok=True)
    obligations = sum((r["props"].get("total_properties") or 0) for r in all_res)
    discharged = sum((r["props"].get("passed") or 0) + (r["props"].get("satisfied") or 0) for r in all_res)
    unreachable = sum((r["props"].get("unreachable") or 0) for r in all_res)
    nontrivial = [r for r in all_res if r["status"] == "Success" and not [c for c in r["unsat_covers"] if "info:" not in (c or "")]]
    fns = sorted({f for r in all_res for f in r["repo_functions"]})
    solver_s = sum((r["stats"] or {}).get("runtime_decision_procedure_s", 0) or 0 for r in all_res)
    symex_s = sum((r["stats"] or {}).get("runtime_symex_s", 0) or 0 for r in all_res)
    samples = []
    for r in all_res[:400]:
        samples.append({
            "harness": r["harness"], "cfg": r["cfg"], "status": r["status"], "checks": r["props"].get("total_properties"),
            "passed": r["props"].get("passed"), "covers_satisfied": r["props"].get("satisfied"),
            "vccs": (r["stats"] or {}).get("vccs_generated"), "solver_s": (r["stats"] or {}).get("runtime_decision_procedure_s"),
            "wall_ms": r.get("duration_ms"), "replay": r.get("replay"),
            "failed_checks": [c["description"] for c in r["failed"]][:5],
        })
    ev = {
        "property_id": prop, "tier": tier, "seed": seed, "level": cfgp.get("level", "model_checking"),
        "coverage": {
            "evaluations": len(all_res),
            "distinct_nontrivial": len({r["harness"] + "|" + r["cfg"] for r in nontrivial}),
            "rule": "one evaluation = one (harness, shape, configuration) SAT query set decided by CBMC over the compiled /repo code; "
                    "distinct = distinct (harness name, configuration); non-trivial = verification succeeded with every reachability cover witness satisfied "
                    "(negative twins and failed harnesses are not counted)",
            "samples": samples,
            "obligations": obligations, "discharged": discharged, "unreachable_checks": unreachable,
            "checker_cmd": "; ".join(m.get("cmd", "") for m in metas if m.get("cmd")),
            "trusted_base": ["Kani 0.68.0 (rustc MIR -> goto)", "CBMC 6.11.0", "cadical SAT", "Kani's std/alloc models", "std, bitvec, bytes, generic-array internals beyond the shapes reached"],
            "explanation": cfgp.get("explanation", ""),
            "bounds": cfgp.get("bounds", ""), "outside_bounds": cfgp.get("outside", ""),
            "repo_functions_encoded": fns, "n_repo_functions_encoded": len(fns),
            "solver_time_s": round(solver_s, 2), "symex_time_s": round(symex_s, 2),
            "negative_twins_failed_as_required": twins_ok,
            "known_findings_reproduced": [k["what"] for k, _ in known_hits],
            "inconclusive": problems, "runs": metas, "exhaustive": False,
            **(extra or {}),
        },
        "assumptions": cfgp.get("assumptions", []) + props.COMMON_ASSUMPTIONS,
        "wall_s": round(wall, 1), "violations": nviol,
    }
    (EVID / ("%s.json" % prop)).write_text(json.dumps(ev, indent=1))


if __name__ == "__main__":
    try:
        main()
    except SystemExit:
        raise
    except BaseException as e:  # a crash of the driver is never a verdict
        import traceback
        traceback.print_exc()
        print("INCONCLUSIVE: driver error: %r" % (e,))
        sys.exit(3)
