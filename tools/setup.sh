#!/bin/bash
# offline setup: make sure the harness crate resolves against the cargo cache and Kani is usable
set -e
cd "$(dirname "$0")/../harness"
export CARGO_NET_OFFLINE=true
cargo kani --version
[ -f Cargo.lock ] || cp /repo/Cargo.lock .
cargo metadata --offline --format-version 1 >/dev/null
mkdir -p ../.build ../evidence ../replays
echo "// placeholder; overwritten by tools/check.py when replaying" > src/pb.rs
echo setup ok
