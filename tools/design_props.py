#!/usr/bin/env python3
"""prints the 'as built' per-property summary (from tools/props.py) for DESIGN.md section 14"""
import sys
from pathlib import Path
sys.path.insert(0, str(Path(__file__).resolve().parent))
import props
for k in sorted(props.PROPS):
    p = props.PROPS[k]
    nq = len(props.names(["c%sq_" % k[1:], "c%sk_" % k[1:]]))
    nt = len(props.names(["c%st_" % k[1:], "c%sn_" % k[1:], "c%sh_" % k[1:]]))
    print("### %s — as built (%d quick harnesses, +%d thorough/negative/real-scale)\n" % (k, nq, nt))
    print("*What is decided:* %s\n" % p.get("explanation", ""))
    print("*Bounds:* %s\n" % p.get("bounds", ""))
    print("*Outside the claim:* %s\n" % p.get("outside", ""))
    cfgs = sorted({r.get("cfg", "nostd") + ("-noext" if r.get("noext") else "") for r in p["runs"]})
    print("*Configurations:* %s%s\n" % (", ".join(cfgs), "; allocator stubs (-Z stubbing)" if any(r.get("stubbing") for r in p["runs"]) else ""))
