#!/usr/bin/env python3
"""C17: expand the REAL derive macros (nightly -Zunpretty=expanded) on template enums and lift the
generated `const fn search_for_invalid_index` / `const fn duplicate_info` verbatim into
harness/src/gen_c17.rs, where Kani decides them over all usize index arrays.

Also (translation validation of the lift): the `indices` initialiser of every template is compared
with the indices the generator expects (attribute > discriminant > position among non-skipped
variants), and the guarded `panic` blocks must be present in both the Encode and Decode expansion.
Writes .build/c17lift/lift.json with what was found.
"""
import json, os, re, subprocess, sys
from pathlib import Path

V = Path(__file__).resolve().parent.parent
WORK = Path(os.environ.get("VERIF_BUILD_DIR", V / ".build")) / "c17lift"
OUT = Path(os.environ.get("VERIF_HARNESS_DIR", V / "harness")) / "src" / "gen_c17.rs"
REPO = os.environ.get("VERIF_REPO_DIR", "/repo")

# template enums: name -> list of (variant, index_attr, discriminant, skip)
TEMPLATES = {
    "L1": [("A", None, None, False)],
    "L2": [("A", 7, None, False), ("B", None, None, False)],
    "L3": [("A", 7, None, False), ("B", None, 9, False), ("C", None, None, False), ("D", None, None, True)],
    "L4": [("A", None, 5, False), ("B", 6, 7, False), ("C", None, None, False), ("D", None, 250, False)],
    "L8": [("A", 200, None, False), ("B", None, None, False), ("C", None, 2, False), ("D", None, None, True), ("E", None, None, False), ("F", 9, 250, False),
           ("G", None, None, False), ("H", None, 77, False), ("I", 0, None, False)],
    "L5": [("A", None, None, True), ("B", None, None, False), ("C", 255, None, False), ("D", None, None, False), ("E", None, 100, False), ("F", 0, None, False)],
}


def expected_indices(vs):
    out, pos = [], 0
    for name, idx, disc, skip in vs:
        if skip:
            continue
        out.append((name, idx if idx is not None else (disc if disc is not None else pos)))
        pos += 1
    return out


def brace_block(s, start):
    """s[start] == '{' -> index after the matching '}'"""
    depth, i = 0, start
    while i < len(s):
        if s[i] == "{":
            depth += 1
        elif s[i] == "}":
            depth -= 1
            if depth == 0:
                return i + 1
        i += 1
    raise ValueError("unbalanced")


def main():
    (WORK / "src").mkdir(parents=True, exist_ok=True)
    (WORK / "Cargo.toml").write_text('[package]\nname = "c17lift"\nversion = "0.0.0"\nedition = "2021"\n[dependencies]\n'
                                     'parity-scale-codec = { path = "__REPO__", default-features = false, features = ["derive"] }\n[workspace]\n'.replace("__REPO__", REPO))
    src = ["use parity_scale_codec::{Encode, Decode};"]
    for name, vs in TEMPLATES.items():
        body = []
        for v, idx, disc, skip in vs:
            a = ("#[codec(skip)] " if skip else "") + ("#[codec(index = %d)] " % idx if idx is not None else "")
            body.append("%s%s%s" % (a, v, " = %d" % disc if disc is not None else ""))
        src.append("#[derive(Encode, Decode)]\npub enum %s { %s }" % (name, ", ".join(body)))
    (WORK / "src" / "lib.rs").write_text("\n".join(src) + "\n")
    lock = V / "harness" / "Cargo.lock"
    if lock.exists() and not (WORK / "Cargo.lock").exists():
        (WORK / "Cargo.lock").write_text(lock.read_text())
    env = dict(os.environ, CARGO_NET_OFFLINE="true")
    p = subprocess.run(["cargo", "+nightly", "rustc", "--offline", "--lib", "--", "-Zunpretty=expanded"], cwd=WORK, env=env, capture_output=True, text=True, timeout=900)
    exp = p.stdout
    report = {"expand_rc": p.returncode, "templates": {}, "problems": []}
    if p.returncode != 0 or "search_for_invalid_index" not in exp:
        report["problems"].append("macro expansion failed or the index check kernel is absent from the expansion: " + p.stderr[-400:])
    mods = {}
    # every occurrence: const indices ... ; const fn search_for_invalid_index ... ; const fn duplicate_info ...
    for m in re.finditer(r"const indices:\s*\[\(usize,\s*&'static str\);\s*(\d+)usize\]\s*=\s*\[", exp):
        n = int(m.group(1))
        init_end = exp.index("];", m.end())
        init = exp[m.end():init_end]
        pairs = re.findall(r"\(\((.*?)\) as ::core::primitive::usize,\s*\"(\w+)\"\)", init, re.S)
        tail = exp[init_end:init_end + 20000]
        fa = tail.find("const fn search_for_invalid_index")
        fb = tail.find("const fn duplicate_info")
        if fa < 0 or fb < 0:
            report["problems"].append("kernel functions missing after an `indices` table (n=%d)" % n)
            continue
        a_end = brace_block(tail, tail.index("{", fa))
        b_end = brace_block(tail, tail.index("{", fb))
        f_inv = tail[fa:a_end]
        f_dup = tail[fb:b_end]
        guards = ("if INVALID_INDEX.0 {" in tail[:fb]) and ("if DUP_INFO.0 {" in tail[b_end:b_end + 400]) and tail.count("::core::panicking::panic", 0, b_end + 6000) >= 2
        mods.setdefault(n, []).append({"inv": f_inv, "dup": f_dup, "pairs": pairs, "guards": guards})
    for name, vs in TEMPLATES.items():
        e = expected_indices(vs)
        n = len(e)
        occ = [o for o in mods.get(n, []) if [p[1] for p in o["pairs"]] == [x[0] for x in e]]
        info = {"n": n, "expected": e, "occurrences": len(occ)}
        if len(occ) != 2:
            report["problems"].append("%s: expected the check kernel in both the Encode and the Decode expansion, found %d" % (name, len(occ)))
        for o in occ:
            got = []
            for expr, vname in o["pairs"]:
                got.append((vname, int(re.sub(r"usize$", "", expr.strip()))))
            if got != e:
                report["problems"].append("%s: indices table %s differs from attribute>discriminant>position %s" % (name, got, e))
            if not o["guards"]:
                report["problems"].append("%s: a guarded panic block (INVALID_INDEX / DUP_INFO) is missing from the expansion" % name)
        if len({o["inv"] for o in occ} | set()) > 1 or len({o["dup"] for o in occ}) > 1:
            report["problems"].append("%s: Encode and Decode expansions carry different kernels" % name)
        info["got"] = [[(v, x) for x, v in o["pairs"]] for o in occ]
        report["templates"][name] = info
    out = ["//! GENERATED by tools/lift_constfn.py from the real macro expansion -- do not edit.",
           "#![allow(dead_code, non_upper_case_globals, unused)]"]
    lifted = 0
    for n in sorted(mods):
        o = mods[n][0]
        out.append("pub mod n%d {\n\tpub %s\n\tpub %s\n}" % (n, o["inv"], o["dup"]))
        lifted += 1
    report["lifted_sizes"] = sorted(mods)
    if lifted == 0:
        out.append("// nothing lifted: the kernel is absent from the expansion")
    for n in (1, 2, 3, 4, 5, 8):
        if n not in mods:
            # keep the harness crate compiling; the driver reports the problem
            out.append("pub mod n%d {\n\tpub const fn search_for_invalid_index(_a: &[(usize, &'static str); %d]) -> (bool, usize) { (false, 0) }\n"
                       "\tpub const fn duplicate_info(_a: &[(usize, &'static str); %d]) -> (bool, usize, usize) { (false, 0, 0) }\n\tpub const MISSING: bool = true;\n}" % (n, n, n))
            report["problems"].append("no kernel of size %d in the expansion" % n)
    OUT.write_text("\n".join(out) + "\n")
    (WORK / "lift.json").write_text(json.dumps(report, indent=1))
    print("lift_constfn: sizes %s, problems: %s" % (sorted(mods), report["problems"] or "none"))
    return 0


if __name__ == "__main__":
    sys.exit(main())
