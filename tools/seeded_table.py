#!/usr/bin/env python3
"""prints the markdown table of /verif/seeded/*/meta.json for DESIGN.md"""
import json, glob
print("| seeded change | breaks | what it needs to manifest (short) | caught by (quick tier unless noted) | history |")
print("|---|---|---|---|---|")
for f in sorted(glob.glob('/verif/seeded/*/meta.json')):
    m = json.load(open(f))
    need = m['needs_to_manifest'].split('\n')[0].lstrip('# ').replace('|', '/')[:140]
    hs = ", ".join(h.split("::")[-1] for h in m.get('counterexample_harnesses', [])[:3])
    caught = (", ".join(m['caught_by']) + (" (" + hs + ")" if hs else "")) if m['caught_by'] else "**not caught**"
    hist = "needed strengthening" if m['history'].startswith("MISSED") else ("thorough tier" if "thorough" in m['history'] else "as-is")
    print("| %s | %s | %s | %s | %s |" % (m['id'], m['property'], need, caught, hist))
