#!/usr/bin/env python3
"""prints the markdown table of /verif/seeded/*/meta.json for DESIGN.md"""
import json, glob
print("| seeded change | breaks | what it needs to manifest (short) | caught by (quick tier unless noted) | history |")
print("|---|---|---|---|---|")
for f in sorted(glob.glob('/verif/seeded/*/meta.json')):
    m = json.load(open(f))
    need = m['needs_to_manifest'].split('\n')[0].lstrip('# ').replace('|', '/')[:140]
    hs = ", ".join(h.split("::")[-1] for h in m.get('counterexample_harnesses', [])[:3])
    caught = (", ".join(m['caught_by']) + (" (" + hs + ")" if hs else "")) if m['caught_by'] else "**not caught**"
    h = m['history']
    if h.startswith("NOT CAUGHT"):
        hist = "not caught: " + ("outside the engine" if "engine" in h else "outside the bounds / feasible region")
    elif h.startswith("MISSED"):
        hist = "needed strengthening" + (" (still inconclusive under the change)" if "inconclusive" in h.lower() and not m['caught_by'] else "")
    elif "thorough" in h and "only" in h:
        hist = "thorough tier"
    elif h.startswith("caught as-is by C") or "caught as-is by" in h[:40]:
        hist = "as-is (by a neighbouring property)"
    else:
        hist = "as-is"
    print("| %s | %s | %s | %s | %s |" % (m['id'], m['property'], need, caught, hist))
