#!/usr/bin/env python3
"""C17: compile a fixed set of twin programs (faulty / minimally different valid) against /repo and compare the
real compiler verdict with the expected one. Validates the lifted model against reality; a mismatch is a concrete
program demonstrating the violation. Prints one JSON line per program; exit 0 always (the driver interprets)."""
import json, os, subprocess, sys
from pathlib import Path
V = Path(__file__).resolve().parent.parent
WORK = Path(os.environ.get("VERIF_BUILD_DIR", V / ".build")) / "c17twins"
REPO = os.environ.get("VERIF_REPO_DIR", "/repo")
HDR = "#![allow(dead_code)]\nuse parity_scale_codec::{Encode, Decode};\n"
# (name, source, should_compile)
TWINS = [
    ("dup_attr_attr", "#[derive(Encode, Decode)] enum T { #[codec(index = 1)] A, #[codec(index = 1)] B }", False),
    ("dup_attr_attr_ok", "#[derive(Encode, Decode)] enum T { #[codec(index = 1)] A, #[codec(index = 2)] B }", True),
    ("dup_attr_position", "#[derive(Encode, Decode)] enum T { #[codec(index = 1)] A, B }", False),
    ("dup_attr_position_ok", "#[derive(Encode, Decode)] enum T { #[codec(index = 2)] A, B }", True),
    ("disc_vs_position_collide", "#[derive(Encode, Decode)] enum T { A = 1, B, C = 3, D }", False),   # B takes position 1
    ("disc_vs_position_ok", "#[derive(Encode, Decode)] enum T { A = 0, B, C = 2, D }", True),
    ("dup_disc_position_bad", "#[derive(Encode, Decode)] enum T { A = 2, B = 7, C }", False),
    ("over_255_attr", "#[derive(Encode, Decode)] enum T { #[codec(index = 256)] A, B }", False),
    ("at_255_attr_ok", "#[derive(Encode, Decode)] enum T { #[codec(index = 255)] A, B }", True),
    ("over_255_disc", "#[derive(Encode, Decode)] #[repr(u16)] enum T { A = 300, B = 1 }", False),
    ("skip_not_counted_collide", "#[derive(Encode, Decode)] enum T { #[codec(skip)] A, #[codec(index = 1)] B, C }", False),  # C takes position 1 among non-skipped
    ("skip_not_counted_ok", "#[derive(Encode, Decode)] enum T { #[codec(skip)] A, #[codec(index = 0)] B, C }", True),
    ("skip_dup", "#[derive(Encode, Decode)] enum T { #[codec(skip)] A, B, #[codec(index = 0)] C }", False),
    ("single_variant_over_255", "#[derive(Encode, Decode)] enum T { #[codec(index = 256)] A(u32) }", False),
    ("single_variant_at_255_ok", "#[derive(Encode, Decode)] enum T { #[codec(index = 255)] A(u32) }", True),
    ("single_live_variant_over_255", "#[derive(Encode, Decode)] enum T { #[codec(index = 300)] A, #[codec(skip)] B }", False),
    ("skip_and_compact_one_plain_field", "#[derive(Encode, Decode)] struct S { #[codec(skip)] #[codec(compact)] a: u32, b: u64 }", False),
    ("skip_and_encoded_as_tuple", "#[derive(Encode, Decode)] struct S(#[codec(skip)] #[codec(encoded_as = \"parity_scale_codec::Compact<u32>\")] u32, u8);", False),
    ("skip_one_plain_field_ok", "#[derive(Encode, Decode)] struct S { #[codec(skip)] a: u32, b: u64 }", True),
    ("skip_and_compact_two_plain_fields", "#[derive(Encode, Decode)] struct S { #[codec(skip)] #[codec(compact)] a: u32, b: u64, c: u8 }", False),
    ("skip_and_compact_in_variant", "#[derive(Encode, Decode)] enum T { A { #[codec(skip)] #[codec(compact)] a: u32, b: u8 } }", False),
    ("list_compact_skip", "#[derive(Encode, Decode)] struct S { #[codec(compact, skip)] a: u32, b: u8 }", False),
    ("list_skip_encoded_as_variant", "#[derive(Encode, Decode)] enum T { A(#[codec(skip, encoded_as = \"u8\")] u32, u8) }", False),
    ("variants_257_one_skipped_ok", "#[derive(Encode, Decode)] enum T { #[codec(skip)] S, " + ", ".join("V%d" % i for i in range(256)) + " }", True),
    ("variants_300_100_skipped_ok", "#[derive(Encode, Decode)] enum T { " + ", ".join(("#[codec(skip)] V%d" % i) if i % 3 == 0 else ("V%d" % i) for i in range(300)) + " }", True),
    ("variants_257_encodable", "#[derive(Encode, Decode)] enum T { " + ", ".join("V%d" % i for i in range(257)) + " }", False),
    ("variants_256_ok", "#[derive(Encode, Decode)] enum T { " + ", ".join("V%d" % i for i in range(256)) + " }", True),
    ("compact_and_encoded_as", "#[derive(Encode, Decode)] struct S { #[codec(compact, encoded_as = \"u8\")] a: u32 }", False),
    ("compact_ok", "#[derive(Encode, Decode)] struct S { #[codec(compact)] a: u32 }", True),
    ("union", "#[derive(Encode, Decode)] union U { a: u8, b: u8 }", False),
    ("compactas_two_fields", "#[derive(Encode, Decode, parity_scale_codec::CompactAs)] struct S(u32, u8);", False),
    ("compactas_one_field_ok", "#[derive(Encode, Decode, parity_scale_codec::CompactAs)] struct S(u32);", True),
    ("compactas_skip_second_ok", "#[derive(Encode, Decode, parity_scale_codec::CompactAs)] struct S(u32, #[codec(skip)] u8);", True),
    ("compactas_enum", "#[derive(Encode, Decode, parity_scale_codec::CompactAs)] enum E { A }", False),
]

def main():
    (WORK / "src" / "bin").mkdir(parents=True, exist_ok=True)
    (WORK / "Cargo.toml").write_text('[package]\nname = "c17twins"\nversion = "0.0.0"\nedition = "2021"\n[dependencies]\n'
                                     'parity-scale-codec = { path = "__REPO__", default-features = false, features = ["derive"] }\n[workspace]\n'.replace("__REPO__", REPO))
    (WORK / "src" / "lib.rs").write_text("")
    for old in (WORK / "src" / "bin").glob("*.rs"):
        old.unlink()
    for name, src, ok in TWINS:
        (WORK / "src" / "bin" / (name + ".rs")).write_text(HDR + src + "\nfn main() {}\n")
    lock = V / "harness" / "Cargo.lock"
    if lock.exists() and not (WORK / "Cargo.lock").exists():
        (WORK / "Cargo.lock").write_text(lock.read_text())
    env = dict(os.environ, CARGO_NET_OFFLINE="true")
    subprocess.run(["cargo", "build", "--offline", "--lib"], cwd=WORK, env=env, capture_output=True, text=True, timeout=900)
    for name, src, ok in TWINS:
        p = subprocess.run(["cargo", "build", "--offline", "--bin", name], cwd=WORK, env=env, capture_output=True, text=True, timeout=900)
        compiled = p.returncode == 0
        diag = ""
        if not compiled:
            lines = [l for l in p.stderr.splitlines() if l.startswith("error")]
            diag = lines[0][:200] if lines else ""
        print(json.dumps({"name": name, "expected_compiles": ok, "compiles": compiled, "agree": compiled == ok, "diagnostic": diag,
                          "path": str(WORK / "src" / "bin" / (name + ".rs"))}))

if __name__ == "__main__":
    main()
