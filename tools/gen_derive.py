#!/usr/bin/env python3
"""Program-family generator for the derive properties (C05, C13-derived, C07/C12-derived).

From ONE abstract description of each type definition it emits
  (i) the Rust item with #[derive(Encode, Decode, ...)]  (what the real proc-macro sees), and
  (ii) its reference encoder/decoder (`impl Spec`), computed from the abstract description,
so the oracle never goes through the macro.  Output: harness/src/gen_derive.rs (regenerated on
every run of the C05/C13 checks).  VERIF_SEED rotates which members of the larger product
family are included in the thorough tier.
"""
import itertools, os, random, sys
from pathlib import Path

OUT = Path(os.environ.get("VERIF_HARNESS_DIR", Path(__file__).resolve().parent.parent / "harness")) / "src" / "gen_derive.rs"

# type table: rust type -> (max encoded len at the harness shape, compactable, MaxEncodedLen?, width bits)
TY = {
    "u8": (1, True, True, 8), "u16": (2, True, True, 16), "u32": (4, True, True, 32), "u64": (8, True, True, 64), "u128": (16, True, True, 128),
    "bool": (1, False, True, 0), "Vec<u8>": (3, False, False, 0), "Option<u16>": (3, False, True, 0), "[u8; 2]": (2, False, True, 0),
    "Box<u8>": (1, False, True, 0), "OneV": (1, False, True, 0), "PhantomData<u64>": (0, False, True, 0), "()": (0, False, True, 0), "Vec<bool>": (3, False, False, 0),
}
COMPACT_LEN = {8: 2, 16: 4, 32: 5, 64: 9, 128: 17}


class F:  # field
    def __init__(self, ty, attr=None, name=None):
        self.ty, self.attr, self.name = ty, attr, name  # attr in None|'skip'|'compact'|'encoded_as'

    def maxlen(self):
        if self.attr == "skip":
            return 0
        if self.attr in ("compact", "encoded_as"):
            return COMPACT_LEN[TY[self.ty][3]]
        return TY[self.ty][0]

    def mel_ok(self):
        return self.attr == "skip" or TY[self.ty][2]

    def attr_src(self):
        if self.attr == "skip":
            return "#[codec(skip)] "
        if self.attr == "compact":
            return "#[codec(compact)] "
        if self.attr == "encoded_as":
            return '#[codec(encoded_as = "Compact<%s>")] ' % self.ty
        return ""


class V:  # enum variant
    def __init__(self, name, kind="unit", fields=(), index=None, disc=None, skip=False, skip_last=False):
        self.name, self.kind, self.fields, self.index, self.disc, self.skip = name, kind, list(fields), index, disc, skip
        self.skip_last = skip_last  # write the skip attribute AFTER the index attribute (two separate #[codec] attributes)


class S:  # struct
    def __init__(self, name, kind, fields=(), transparent=False, tier="q", derives_mel=True, generic=False):
        self.name, self.kind, self.fields, self.transparent, self.tier = name, kind, list(fields), transparent, tier
        self.derives_mel, self.generic = derives_mel, generic
        for i, f in enumerate(self.fields):
            f.name = f.name or ("f%d" % i)


class E:  # enum
    def __init__(self, name, variants, tier="q", derives_mel=True):
        self.name, self.variants, self.tier, self.derives_mel = name, variants, tier, derives_mel
        for v in variants:
            for i, f in enumerate(v.fields):
                f.name = f.name or ("f%d" % i)

    def indices(self):
        """attribute > discriminant > position among NON-SKIPPED variants"""
        out, pos = {}, 0
        for v in self.variants:
            if v.skip:
                continue
            out[v.name] = v.index if v.index is not None else (v.disc if v.disc is not None else pos)
            pos += 1
        return out


def family(seed):
    fam = [
        S("SUnit", "unit"),
        S("STup0", "tuple", []),
        S("SNamed0", "named", []),
        S("STup1U32", "tuple", [F("u32")]),                      # single-field forwarding
        S("SNamed1Compact", "named", [F("u32", "compact")]),     # single field, compact
        S("STup1As", "tuple", [F("u64", "encoded_as")]),          # single field, encoded_as
        S("SNamed1Vec", "named", [F("Vec<u8>")], derives_mel=False),
        S("SSkipThenOne", "named", [F("u16", "skip"), F("u8")]),  # one non-skipped field after a skipped one
        S("SOneThenSkip", "tuple", [F("bool"), F("u32", "skip")]),
        S("SAllSkipped", "named", [F("u16", "skip"), F("u8", "skip")]),
        S("SMixed3", "named", [F("u8"), F("u32", "compact"), F("u16", "skip")]),
        S("STup3", "tuple", [F("u16"), F("Option<u16>"), F("bool")]),
        S("SCompact128", "tuple", [F("u128", "compact"), F("u8")]),
        S("SAs16", "named", [F("u8"), F("u16", "encoded_as")]),
        S("SVecTail", "named", [F("u8"), F("Vec<u8>")], derives_mel=False),
        S("SArr", "tuple", [F("[u8; 2]"), F("u8", "compact")]),
        S("STransU32", "tuple", [F("u32")], transparent=True),
        S("STransArrZst", "named", [F("[u8; 2]"), F("PhantomData<u64>")], transparent=True),
        S("STransBox", "tuple", [F("Box<u8>")], transparent=True, tier="t"),
        # repr(transparent) with attributes that must make the derive bail out of the in-place decode_into fast path
        S("STransCompact", "tuple", [F("u32", "compact")], transparent=True),
        S("STransAs", "named", [F("u64", "encoded_as")], transparent=True),
        S("STransSkipZst", "named", [F("u16"), F("PhantomData<u64>", "skip")], transparent=True),
        # a field that is zero-sized in memory but NOT on the wire, inside a transparent struct and a plain one
        S("STransZstEnc", "named", [F("OneV"), F("u32")], transparent=True),
        # the only SIZED field of a transparent struct is skipped, the decoded one is zero-sized in memory
        S("STransSkipSized", "tuple", [F("u32", "skip"), F("OneV")], transparent=True),
        S("SZstEncMid", "tuple", [F("u8"), F("OneV"), F("u16", "compact")]),
        S("SBoxed", "named", [F("Box<u8>"), F("u8", "compact")], tier="t"),
        S("SCompact64Pair", "named", [F("u64", "compact"), F("u64", "encoded_as")], tier="t"),
        S("STup4", "tuple", [F("u8"), F("u8", "skip"), F("u16", "compact"), F("bool")], tier="t"),
        E("EUnit1", [V("A")]),
        E("EUnit3", [V("A"), V("B"), V("C")]),
        E("EIdxAttr", [V("A", index=7), V("B"), V("C", index=0)]),                 # B gets position 1
        E("EDisc", [V("A", disc=3), V("B"), V("C", disc=9)]),                      # B gets position 1
        E("ESkipMid", [V("A"), V("B", skip=True), V("C")]),                       # C gets position 1 (skipped not counted)
        E("ESkipFirst", [V("A", skip=True), V("B", "tuple", [F("u8")]), V("C", index=200)]),
        E("ETuple", [V("A", "tuple", [F("u16")]), V("B", "tuple", [F("u8"), F("u32", "compact")]), V("C")]),
        E("ENamed", [V("A", "named", [F("u8", name="x"), F("u32", "compact", name="y")]), V("B", "named", [F("bool", name="z")])]),
        E("EAttrDiscMix", [V("A", disc=5), V("B", index=5 + 1, disc=5 + 2), V("C"), V("D", skip=True), V("F", disc=250)]),
        E("ESkipField", [V("A", "tuple", [F("u8", "skip"), F("u16")]), V("B", "named", [F("u32", "skip", name="p")])]),
        E("ESkipAttrLast", [V("A"), V("Retired", index=7, skip=True, skip_last=True), V("B", "tuple", [F("u8")]), V("C", "tuple", [F("OneV")], index=9)]),
        # explicit discriminants on FIELD-CARRYING variants (needs #[repr(u8)]) -- they are the index just as on unit variants
        E("EDiscFields", [V("A", "tuple", [F("u16")], disc=10), V("B", "named", [F("u8", name="x")], disc=20), V("C", disc=30), V("D", "tuple", [F("bool")])]),
        # variants with the SAME field types whose attributes differ (the larger one comes later)
        E("EDupTypes", [V("A", "tuple", [F("u64")]), V("B", "tuple", [F("u64", "compact")]), V("C", "tuple", [F("u64")])]),
        E("EDupTypes2", [V("A", "named", [F("u8", "compact", name="x")]), V("B", "named", [F("u8", name="x")]), V("C", "named", [F("u8", "encoded_as", name="x")])], tier="t"),
        E("EAllSkipped", [V("A", skip=True), V("B", "tuple", [F("u8")], skip=True)]),
        E("EVec", [V("A", "tuple", [F("Vec<u8>")]), V("B")], derives_mel=False),
        E("EIdx255", [V("A", index=255), V("B", index=254), V("C", disc=7)], tier="t"),
        E("EAs", [V("A", "tuple", [F("u64", "encoded_as")]), V("B", "named", [F("u8", "compact", name="q"), F("bool", name="r")])], tier="t"),
        E("EFour", [V("A"), V("B", "tuple", [F("Option<u16>")]), V("C", skip=True), V("D", "named", [F("[u8; 2]", name="a")])], tier="t"),
        E("EOnlyOneLive", [V("A", skip=True), V("B", "tuple", [F("u16")]), V("C", skip=True)], tier="t"),
    ]
    # larger product family for the thorough tier: struct shapes x per-field attributes x field types (pairwise sample)
    rnd = random.Random(seed)
    combos = []
    tys = ["u8", "u32", "u64", "bool", "Option<u16>"]
    for kind in ("tuple", "named"):
        for n in (2, 3):
            for attrs in itertools.product([None, "skip", "compact", "encoded_as"], repeat=n):
                combos.append((kind, n, attrs))
    rnd.shuffle(combos)
    k = 0
    for kind, n, attrs in combos[:18]:
        fields = []
        for a in attrs:
            ty = rnd.choice(tys)
            if a in ("compact", "encoded_as") and not TY[ty][1]:
                ty = rnd.choice(["u8", "u32", "u64"])
            fields.append(F(ty, a))
        cand = S("SProd%d" % k, kind, fields, tier="t")
        if sum(f.maxlen() for f in cand.fields) > 12:
            continue  # two wide compacts in one definition: the decode query over all strings does not finish in 300 s
        fam.append(cand)
        k += 1
    return fam


# ---------------------------------------------------------------------------------------------
def fields_decl(kind, fields, public=True):
    pub = "pub " if public else ""
    if kind == "unit":
        return ""
    if kind == "tuple":
        return "(" + ", ".join("%s%s%s" % (f.attr_src(), pub, f.ty) for f in fields) + ")"
    return " { " + ", ".join("%s%s%s: %s" % (f.attr_src(), pub, f.name, f.ty) for f in fields) + " }"


def pat(kind, fields, prefix):
    if kind == "unit":
        return ""
    if kind == "tuple":
        return "(" + ", ".join(prefix + f.name for f in fields) + ")"
    return " { " + ", ".join("%s: %s%s" % (f.name, prefix, f.name) for f in fields) + " }"


def ctor(kind, fields, expr):
    if kind == "unit":
        return ""
    if kind == "tuple":
        return "(" + ", ".join(expr(f) for f in fields) + ")"
    return " { " + ", ".join("%s: %s" % (f.name, expr(f)) for f in fields) + " }"


def enc_field(f, var):
    if f.attr == "skip":
        return ""
    if f.attr in ("compact", "encoded_as"):
        return "put_compact(*%s as u128, o); " % var
    return "%s.spec_enc(o); " % var


def dec_field(f):
    if f.attr == "skip":
        return "let %s: %s = Default::default(); " % (f.name, f.ty)
    if f.attr in ("compact", "encoded_as"):
        return "let %s = c.compact(%d)? as %s; " % (f.name, TY[f.ty][3], f.ty)
    return "let %s = <%s as Spec>::spec_dec(c)?; " % (f.name, f.ty)


def same_fields(fields):
    parts = ["a_%s.same(b_%s)" % (f.name, f.name) for f in fields if f.attr != "skip"]
    return " && ".join(parts) if parts else "true"


def default_fields(fields, prefix):
    parts = ["%s%s.same(&Default::default())" % (prefix, f.name) for f in fields if f.attr == "skip"]
    return " && ".join(parts) if parts else "true"


def emit(fam):
    o = []
    w = o.append
    w("//! GENERATED by tools/gen_derive.py -- do not edit. Derive family G: each item and its reference model")
    w("//! come from one abstract description; the model does not go through the macro.")
    w("#![allow(non_camel_case_types, unused_variables, unused_mut, dead_code, unreachable_patterns)]")
    w("use crate::{io::*, spec::*, sym::Sym, gen::*, gen2::*};")
    w("use alloc::{boxed::Box, vec::Vec};")
    w("use core::marker::PhantomData;")
    w("use parity_scale_codec::{Compact, Decode, DecodeWithMemTracking, Encode, MaxEncodedLen};")
    w("")
    w("/// zero-sized in memory, one byte (its index, 5) on the wire")
    w("#[derive(Encode, Decode, DecodeWithMemTracking, MaxEncodedLen, Clone, Copy)]")
    w("pub enum OneV { #[codec(index = 5)] Only }")
    w("impl Default for OneV { fn default() -> Self { OneV::Only } }")
    w("impl Spec for OneV { fn spec_enc<const N: usize>(&self, o: &mut Buf<N>) { o.put(5) } fn spec_dec(c: &mut Cur) -> Option<Self> { if c.byte()? == 5 { Some(OneV::Only) } else { None } } fn same(&self, _o: &Self) -> bool { true } }")
    w("impl Sym for OneV { fn sym(_c: usize) -> Self { OneV::Only } }")
    w("impl Elem for OneV {}")
    w("/// facts about a derived value that the generic harness bodies need")
    w("pub trait DerivedInfo { fn in_skipped_variant(&self) -> bool; fn skipped_fields_default(&self) -> bool; }")
    w("")
    for t in fam:
        mel = t.derives_mel and all(f.mel_ok() for f in (t.fields if isinstance(t, S) else [f for v in t.variants for f in v.fields]))
        t.mel = mel
        derives = "Encode, Decode, DecodeWithMemTracking" + (", MaxEncodedLen" if mel else "")
        if isinstance(t, S):
            w("#[derive(%s)]" % derives)
            if t.transparent:
                w("#[repr(transparent)]")
            w("pub struct %s%s%s" % (t.name, fields_decl(t.kind, t.fields), ";" if t.kind != "named" else ""))
            p_self = pat(t.kind, t.fields, "")
            w("impl Spec for %s {" % t.name)
            w("\tfn spec_enc<const N: usize>(&self, o: &mut Buf<N>) { let %s%s = self; %s}" % (t.name, p_self, "".join(enc_field(f, f.name) for f in t.fields)))
            w("\tfn spec_dec(c: &mut Cur) -> Option<Self> { %sSome(%s%s) }" % ("".join(dec_field(f) for f in t.fields), t.name, ctor(t.kind, t.fields, lambda f: f.name)))
            w("\tfn same(&self, o: &Self) -> bool { let %s%s = self; let %s%s = o; %s }" % (t.name, pat(t.kind, t.fields, "a_"), t.name, pat(t.kind, t.fields, "b_"), same_fields(t.fields)))
            w("}")
            w("impl Sym for %s { fn sym(c: usize) -> Self { %s%s } }" % (t.name, t.name, ctor(t.kind, t.fields, lambda f: "<%s as Sym>::sym(c)" % f.ty)))
            w("impl DerivedInfo for %s { fn in_skipped_variant(&self) -> bool { false } fn skipped_fields_default(&self) -> bool { let %s%s = self; %s } }" % (
                t.name, t.name, pat(t.kind, t.fields, "s_"), default_fields(t.fields, "s_")))
            t.maxlen = sum(f.maxlen() for f in t.fields)
            if not t.generic:
                w("impl Elem for %s {}" % t.name)
        else:
            idx = t.indices()
            w("#[derive(%s)]" % derives)
            body = []
            for v in t.variants:
                a = ""
                if v.skip and not v.skip_last:
                    a += "#[codec(skip)] "
                if v.index is not None:
                    a += "#[codec(index = %d)] " % v.index
                if v.skip and v.skip_last:
                    a += "#[codec(skip)] "
                d = " = %d" % v.disc if v.disc is not None else ""
                body.append("%s%s%s%s" % (a, v.name, fields_decl(v.kind, v.fields, public=False), d))
            if any(v.disc is not None for v in t.variants) and any(v.kind != "unit" for v in t.variants):
                w("#[repr(u8)]")
            w("pub enum %s { %s }" % (t.name, ", ".join(body)))
            w("impl Spec for %s {" % t.name)
            arms = []
            for v in t.variants:
                if v.skip:
                    arms.append("%s::%s%s => {}" % (t.name, v.name, {"unit": "", "tuple": "(..)", "named": " { .. }"}[v.kind]))
                else:
                    arms.append("%s::%s%s => { o.put(%d); %s}" % (t.name, v.name, pat(v.kind, v.fields, ""), idx[v.name], "".join(enc_field(f, f.name) for f in v.fields)))
            w("\tfn spec_enc<const N: usize>(&self, o: &mut Buf<N>) { match self { %s } }" % ", ".join(arms))
            arms = []
            for v in t.variants:
                if not v.skip:
                    arms.append("%d => { %sSome(%s::%s%s) }" % (idx[v.name], "".join(dec_field(f) for f in v.fields), t.name, v.name, ctor(v.kind, v.fields, lambda f: f.name)))
            w("\tfn spec_dec(c: &mut Cur) -> Option<Self> { match c.byte()? { %s _ => None } }" % "".join(a + ", " for a in arms))
            arms = []
            for v in t.variants:
                arms.append("(%s::%s%s, %s::%s%s) => %s" % (t.name, v.name, pat(v.kind, v.fields, "a_"), t.name, v.name, pat(v.kind, v.fields, "b_"), same_fields(v.fields)))
            w("\tfn same(&self, o: &Self) -> bool { match (self, o) { %s, _ => false } }" % ", ".join(arms))
            w("}")
            n = len(t.variants)
            arms = ["%d => %s::%s%s" % (i, t.name, v.name, ctor(v.kind, v.fields, lambda f: "<%s as Sym>::sym(c)" % f.ty)) for i, v in enumerate(t.variants[:-1])]
            last = t.variants[-1]
            arms.append("_ => %s::%s%s" % (t.name, last.name, ctor(last.kind, last.fields, lambda f: "<%s as Sym>::sym(c)" % f.ty)))
            w("impl Sym for %s { fn sym(c: usize) -> Self { let k: u8 = kani::any(); match k { %s } } }" % (t.name, ", ".join(arms)))
            sk = ["%s::%s%s => %s" % (t.name, v.name, {"unit": "", "tuple": "(..)", "named": " { .. }"}[v.kind], "true" if v.skip else "false") for v in t.variants]
            df = ["%s::%s%s => %s" % (t.name, v.name, pat(v.kind, v.fields, "s_"), default_fields(v.fields, "s_")) for v in t.variants]
            w("impl DerivedInfo for %s { fn in_skipped_variant(&self) -> bool { match self { %s } } fn skipped_fields_default(&self) -> bool { match self { %s } } }" % (
                t.name, ", ".join(sk), ", ".join(df)))
            live = [v for v in t.variants if not v.skip]
            t.maxlen = (1 + max([sum(f.maxlen() for f in v.fields) for v in live])) if live else 0
            w("impl Elem for %s {}" % t.name)
        w("")

    # ---- harness instantiations
    def _ftys0(t):
        return "".join(f.ty for f in (t.fields if isinstance(t, S) else [f for v in t.variants for f in v.fields]))
    def has_compact(t):
        fs = t.fields if isinstance(t, S) else [f for v in t.variants for f in v.fields]
        return any(f.attr in ("compact", "encoded_as") for f in fs)

    for t in fam:
        n = max(4, t.maxlen + 3)
        l = t.maxlen + 1
        u = max(n + 2, 19 if has_compact(t) else 0)
        nm = t.name.lower()
        q = t.tier
        all_skipped = isinstance(t, E) and not any(not v.skip for v in t.variants)
        w('#[cfg(feature = "c05")] #[kani::proof] #[kani::unwind(%d)] pub fn c05%s_%s_enc() { h_enc::<%s, %d>(2) }' % (u, q, nm, t.name, n))
        if not all_skipped:
            w('#[cfg(feature = "c05")] #[kani::proof] #[kani::unwind(%d)] pub fn c05%s_%s_rt() { h_rt_derived::<%s, %d>(2) }' % (u, q, nm, t.name, n + 2))
        w('#[cfg(feature = "c05")] #[kani::proof] #[kani::unwind(%d)] pub fn c05%s_%s_dec() { h_dec_derived::<%s, %d>() }' % (u, q, nm, t.name, l))
        # the same three obligations under the wire-format / round-trip / decoder properties for a representative subset
        if t.name in ("SMixed3", "STup1As", "SSkipThenOne", "STransCompact", "STransZstEnc", "SZstEncMid", "ETuple", "ENamed", "EAttrDiscMix", "ESkipFirst", "ESkipAttrLast", "EIdxAttr", "EAllSkipped", "ESkipField", "EDisc"):
            w('#[cfg(feature = "c01")] #[kani::proof] #[kani::unwind(%d)] pub fn c01q_derived_%s_enc() { h_enc::<%s, %d>(2) }' % (u, nm, t.name, n))
            if not all_skipped:
                w('#[cfg(feature = "c02")] #[kani::proof] #[kani::unwind(%d)] pub fn c02q_derived_%s_rt() { h_rt_derived::<%s, %d>(2) }' % (u, nm, t.name, n + 2))
            w('#[cfg(feature = "c03")] #[kani::proof] #[kani::unwind(%d)] pub fn c03q_derived_%s_dec() { h_dec_derived::<%s, %d>() }' % (u, nm, t.name, l))
            if isinstance(t, S) and t.transparent:
                w('#[cfg(feature = "c02")] #[kani::proof] #[kani::unwind(%d)] pub fn c02q_derived_%s_boxed_rt() { h_rt::<Box<%s>, %d, 2>(2) }' % (u, nm, t.name, n + 2))
                w('#[cfg(feature = "c03")] #[kani::proof] #[kani::unwind(%d)] pub fn c03q_derived_%s_boxed_dec() { h_dec::<Box<%s>, %d>() }' % (u, nm, t.name, l))
        _ftys = "".join(f.ty for f in (t.fields if isinstance(t, S) else [f for v in t.variants for f in v.fields]))
        _skipped_variant = isinstance(t, E) and any(v.skip for v in t.variants)  # Sym may build a skipped variant: no encoding to compare
        if not getattr(t, "generic", False) and 0 < t.maxlen <= 5 and "Vec" not in _ftys and "Box" not in _ftys and not _skipped_variant:
            # the type as an ELEMENT of a sequence / array (bulk paths are selected per element type)
            w('#[cfg(feature = "c01")] #[kani::proof] #[kani::unwind(%d)] pub fn c01%s_derived_%s_as_elem_enc() { h_enc::<Vec<%s>, %d>(2); h_enc::<[%s; 2], %d>(2) }' % (2 * u + 2, q, nm, t.name, 2 * n + 4, t.name, 2 * n + 4))
            w('#[cfg(feature = "c02")] #[kani::proof] #[kani::unwind(%d)] pub fn c02%s_derived_%s_as_elem_rt() { h_rt_cnt::<Vec<%s>, %d, 2>(2, None) }' % (2 * u + 2, q, nm, t.name, 2 * n + 6))
        if not all_skipped and t.maxlen <= 9 and "Vec" not in _ftys0(t):
            # the same derived type under the properties that compare two runs of the real decoder
            w('#[cfg(feature = "c19")] #[kani::proof] #[kani::unwind(%d)] pub fn c19%s_derived_%s_counted() { h_counted::<%s, %d>() }' % (u, q, nm, t.name, l))
            w('#[cfg(feature = "c08")] #[kani::proof] #[kani::unwind(%d)] pub fn c08%s_derived_%s_inputs() { crate::c08_inputs::h_inputs_slim::<%s, %d>() }' % (u, q, nm, t.name, l))
            if t.maxlen > 0 and not (isinstance(t, E) and any(v.skip for v in t.variants)):
                w('#[cfg(feature = "c14")] #[kani::proof] #[kani::unwind(%d)] pub fn c14%s_derived_%s_pfx() { h_prefix::<%s, %d>(2) }' % (u, q, nm, t.name, n + 2))
        if not all_skipped and t.maxlen <= 9:
            w('#[cfg(feature = "c18")] #[kani::proof] #[kani::unwind(%d)] pub fn c18%s_derived_%s_skip() { h_skip::<%s, %d>() }' % (u, q, nm, t.name, l))
        if isinstance(t, S) and t.transparent and t.maxlen > 0:
            w('#[cfg(feature = "c14")] #[kani::proof] #[kani::unwind(%d)] pub fn c14%s_derived_%s_boxed_pfx() { h_prefix::<Box<%s>, %d>(2) }' % (u, q, nm, t.name, n + 2))
        w('#[cfg(feature = "c13")] #[kani::proof] #[kani::unwind(%d)] pub fn c13%s_derived_%s_fixed() { crate::c13_lengths::h_fixed::<%s, %d>(false) }' % (u, q, nm, t.name, n))
        if t.mel:
            w('#[cfg(feature = "c13")] #[kani::proof] #[kani::unwind(%d)] pub fn c13%s_derived_%s_max() { h_max_derived::<%s, %d>() }' % (u, q, nm, t.name, n))
        single = isinstance(t, S) and len([f for f in t.fields if f.attr != "skip"]) == 1
        if single or t.name in ("SMixed3", "ETuple", "EAllSkipped", "SAllSkipped", "SUnit"):
            wide = any(f.attr in ("compact", "encoded_as") and TY[f.ty][3] >= 64 for f in (t.fields if isinstance(t, S) else []))
            w('#[cfg(feature = "c07")] #[kani::proof] #[kani::unwind(%d)] pub fn c07%s_derived_%s_entry() { crate::c07_entry::h_entry::<%s, %d>(2) }' % (u, "t" if wide else q, nm, t.name, n))
        if isinstance(t, S) and t.transparent:
            w('#[cfg(feature = "c05")] #[kani::proof] #[kani::unwind(%d)] pub fn c05%s_%s_boxed_dec() { h_dec::<Box<%s>, %d>() }' % (u, q, nm, t.name, l))
            if any(f.attr == "skip" for f in t.fields):
                w('#[cfg(feature = "c05")] #[kani::proof] #[kani::unwind(%d)] pub fn c05%s_%s_inplace_skip() { h_dec_derived_inplace::<%s, %d>() }' % (2 * u, q, nm, t.name, 2 * t.maxlen + 1))
                w('#[cfg(feature = "c10")] #[kani::proof] #[kani::unwind(%d)] pub fn c10%s_derived_%s_inplace_skip() { h_dec_derived_inplace::<%s, %d>() }' % (2 * u, q, nm, t.name, 2 * t.maxlen + 1))
            if t.maxlen <= 5:
                w('#[cfg(feature = "c05")] #[kani::proof] #[kani::unwind(%d)] pub fn c05%s_%s_array_dec() { h_dec::<[%s; 2], %d>() }' % (2 * u, q, nm, t.name, 2 * t.maxlen + 1))
    w("")
    OUT.write_text("\n".join(o) + "\n")
    print("gen_derive: %d definitions -> %s" % (len(fam), OUT))


if __name__ == "__main__":
    emit(family(int(os.environ.get("VERIF_SEED", "0") or 0)))
