#!/usr/bin/env python3
"""mk_seeded.py <ID> <k> : copy a CONFIRMED seeded change from /tmp/mut/out/<ID>/m<k> into /verif/seeded/<ID>-m<k>/ with meta.json
(needs confirm.txt from tools/confirm_seed.sh and eval.txt from tools/eval_seed.sh)"""
import json, re, shutil, sys
from pathlib import Path
ID, k = sys.argv[1], sys.argv[2]
import os
src = Path(os.environ.get("SEED_OUT", "/tmp/mut/out")) / ID / ("m" + k)
dst = Path("/verif/seeded") / ("%s-m%s%s" % (ID, k, os.environ.get("SEED_SUFFIX", "")))
conf = (src / "confirm.txt").read_text()
ev = (src / "eval.txt").read_text() if (src / "eval.txt").exists() else ""
sec = conf.split("-- ")
suite = [l.strip() for l in sec[1].splitlines()[1:] if l.strip()] if len(sec) > 1 else []
bad_suite = [l for l in suite if ("FAILED" in l or "failed" in l) and not re.search(r"_ui|derive_no_bound_ui|scale_codec_ui_tests|zz_seed_demo|test result: FAILED. 0 passed; 1 failed", l)]
# demo tests listed in the suite run (the demo file sits in tests/ during the run) are expected to fail
demo_tests = set(re.findall(r"test (\w+) \.\.\. FAILED", sec[2])) if len(sec) > 2 else set()
bad_suite = [l for l in bad_suite if not any(t in l for t in demo_tests) and "passed;" not in l or ("passed;" in l and not re.search(r"\d+ failed", l))]
demo_with = ("FAILED" in sec[2] or "error: test failed" in sec[2]) if len(sec) > 2 else False  # (a demo that dies of stack overflow only prints the error line)
demo_without = ("test result: ok" in sec[3] and "FAILED" not in sec[3]) if len(sec) > 3 else False
# C20 seeds live in a non-default feature configuration: confirm.txt then carries a "custom confirmation" section run under it
if "custom confirmation" in conf:
    cust = conf[conf.index("custom confirmation"):]
    parts = cust.split("-- ")
    demo_with = any("expect failure" in p and "FAILED" in p for p in parts)
    demo_without = any("without change" in p and "test result: ok" in p and "FAILED" not in p for p in parts)
confirmed = demo_with and demo_without
caught = sorted(set(re.findall(r"VIOLATION property=(C\d+)", ev)))
harnesses = sorted(set(re.findall(r"counterexample: (?:harness|program) (\S+): ", ev)))
evaluated = re.findall(r"seedrun: (C\d+) -> exit (\d+)", ev)
# honest history: which seeded changes the checks caught as they were when the change arrived, and which needed strengthening first
HISTORY = {
 "C01-m1": "MISSED at first (derived enums were only checked under C05); derived members are now cross-listed under C01/C02/C03 (c01q_derived_*)",
 "C01-m2": "MISSED at first under C01 (its only bit-slice harness used a u16 store and did not finish within 300 s; the C06 harness c06q_bits_lsb_o2_n3 did catch it); bit-slice harnesses reshaped to the feasible region (Lsb0, u8 store, inside one word) and c01q_bits_lsb_o2_n4 added",
 "C02-m1": "MISSED at first (no repr(transparent) type with a compact field in the family); STransCompact/STransAs/STransSkipZst added with boxed/array decode + round trip",
 "C02-m2": "MISSED at first (no element type with an empty encoding but non-zero size); c02q_vec_of_empty_encoding_elems added",
 "C03-m2": "MISSED at first under C03 (derived enums only under C05); c03q_derived_* cross-listing added",
 "C05-m1": "MISSED at first (see C02-m1); family extended",
 "C06-m2": "MISSED at first under C06 (holders were only checked as single values); c06q_collections_of_holders added",
 "C07-m1": "MISSED at first (no io::Write sink with short writes); std-configuration run with ShortWriter added (c07q_iow_*)",
 "C08-m1": "MISSED at first (see C02-m2); c08q_in_vec_of_empty_encoding_elems added",
 "C08-m2": "MISSED at first (no zero-length read through IoReader); c08q_ioreader_zero_length_reads added",
 "C09-m2": "MISSED at first (needs a second chunk reservation: >= 16 KiB of payload); reached with 3 input bytes through 8 KiB elements (c09q_chunk_progress_*), plus assert-and-cut stubs, and a canned native witness because Kani's playback mode runs out of memory on this harness",
 "C10-m1": "MISSED at first (ledger element was not zero-sized); Zt (ZST with Drop) harnesses added; driver fixed to accept a cover-labelled playback test when it is the only one",
 "C10-m2": "MISSED at first (ledger sees drops, not heap blocks); allowance-0 allocator stubs assert that a refused Box allocation is never made (c10q_refused_*)",
 "C11-m1": "MISSED at first (empty containers were only decoded at top level); wide-but-shallow shapes and 'final depth == start depth' from any state added (c11q_restore_*, c11q_dp_empty_vec_then_*)",
 "C12-m1": "MISSED at first (only the first announcement was checked); c12q_every_chunk_announced (8 KiB elements) added",
 "C15-m1": "MISSED at first (zero-sized items were only `()`); c15q_zero_sized_items_with_encoding added",
 "C16-m2": "MISSED at first (no derived type in the EncodeLike table); c16q_derived_boxed_forms added",
 "C17-m1": "MISSED at first (no single-variant twin; the lift reported the missing kernel only as inconclusive); twins single_variant_* added",
 "C17-m2": "MISSED at first (no skip+compact conflict twin); twins skip_and_* added",
 "C20-m1": "needs the real-scale harness c20h_encode_owned_20000 (thorough tier only): one write of > 16 KiB into Vec<u8> under no-std",
}
HISTORY_R2 = {
 "C01-m1": "MISSED at first (no 64-element sequence: counts were <= 3 or 16384); c01q_count_boundary_* added (63/64/65 elements on Vec, slice, deque, str)",
 "C01-m2": "MISSED at first (no element type that is zero-sized in memory but not on the wire); c01q_seq_of_zero_sized_elems_with_encoding added",
 "C02-m1": "MISSED at first (same gap as C01-m2 on the decode side); c02q_zero_sized_elems_with_encoding added",
 "C03-m1": "caught as-is by C04 (all strings for Compact<u64>); under C03 it was MISSED at first (no wide compact in C03's own list): c03q_compact_u64 added",
 "C03-m2": "MISSED at first (no sequence/array of NonZero elements on the decode side); c03q_vec_nz_*, c03q_arr_nz_* added",
 "C05-m1": "MISSED at first (the generator always wrote skip before index); variant with #[codec(index)] #[codec(skip)] in that order added (ESkipAttrLast)",
 "C05-m2": "MISSED at first (no zero-sized-but-encoded field in a transparent struct); STransZstEnc / SZstEncMid with field type OneV added",
 "C06-m2": "MISSED at first (no 64-element deque); c06q_deque_count_boundary_64 added",
 "C07-m1": "MISSED at first (no array of one-byte non-u8 elements through using_encoded); c07q_ent_arr_optionbool / arr_compact_u8 / arr_bool added",
 "C07-m2": "MISSED at first (ranges only over u16); c07q_ent_range_compact / range_incl_compact / range_opt added",
 "C08-m1": "needs the real-scale harness c08h_unknown_length_multi_chunk_u32 (thorough tier only): > 16 KiB of wide elements from an unknown-length input",
 "C08-m2": "caught as-is by C19 (hook forwarding); under C08 MISSED at first (stacks only used u32::MAX limits): c08q_counted_above_finite_depth_limit added",
 "C09-m1": "MISSED at first (moderate counts <= 16384 only with 1-byte elements); c09q_slice_vec_wide_2p14 / unk_vec_wide_1500 / vec_arr_5000 added",
 "C09-m2": "MISSED at first (map rejection paths ran under a 256 B allowance); c09q_map_63_one_entry_tight / set_63_two_entries_tight (64 B) added",
 "C10-m1": "NOT CAUGHT and outside the engine: the defect only shows when an element decoder PANICS (Kani models panic as abort; unwinding is not executed). Stated limit of C10.",
 "C11-m2": "MISSED at first (containers inside map entries timed out with droppable values); non-owning level-counting element Lvl with concrete limits added (c11q_map_value_level_lim*)",
 "C13-m1": "caught by family member SZstEncMid (compact u16 field), which had been added after round 1 for another reason; earlier only STup4 (thorough tier) had a compact u16",
 "C13-m2": "MISSED at first (only correctly marked types were instantiated); marker probe c13q_celprobe_* holds ANY type that carries ConstEncodedLen to it",
 "C14-m1": "MISSED at first (see C01-m2); c14q_array_of_zero_sized_elems_with_encoding added",
 "C16-m1": "MISSED at first (see C01-m2); c16q_pointer_to_zero_sized_with_encoding added",
 "C16-m2": "thorough tier only: c16t_unsorted_slice_vs_map (added after this change arrived; two-entry map decode takes minutes)",
 "C17-m1": "MISSED at first (no > 256-variant twin); twins variants_257_one_skipped_ok etc. added",
 "C19-m2": "MISSED at first (no shared byte buffer through the counting wrapper); c19q_bytes_through_counted_* added",
 "C20-m1": "caught by c08q_bytes_* which were added to C20's per-configuration runs after this change arrived",
 "C20-m2": "caught by c12q_ml_box_* which were added to C20's per-configuration runs after this change arrived",
}
HISTORY_R3 = {
 "C01-m1": "MISSED at first (the largest count was 16384); c01q_count_u32_max_prefix added: a slice of 2^32-1 unit values costs no memory, the sink checks the five prefix bytes and cuts the path",
 "C01-m2": "NOT CAUGHT, outside the feasible region: needs an owned BitVec with stale bits behind its end (decode, truncate, repeat); BitVec encode of a decoded/owned vector does not finish (2400 s cap)",
 "C02-m1": "NOT CAUGHT, outside the bounds: needs a String > 16 KiB with a multi-byte character across a read chunk; UTF-8 validation of 64 symbolic bytes already exceeds 400 s",
 "C03-m2": "MISSED at first (with the cap gone the count still fails for lack of data, so accept/reject is unchanged for small inputs); c03q_bitvec_cap_fires_before_alloc added: the cap must fire before any allocation is announced",
 "C06-m1": "NOT CAUGHT, outside the feasible region (see C01-m2 of this round)",
 "C06-m2": "NOT CAUGHT, outside the feasible region: BitBox::from_bitslice at a non-zero offset does not finish (2400 s cap)",
 "C07-m2": "MISSED at first (strings were ASCII: char count == byte count; two harnesses timed out instead); c07q_ent_str_non_ascii added",
 "C08-m2": "MISSED at first under C08 (no Duration array among the input-kind shapes; C13's fixed-size list does catch the wrong encoded_fixed_size); c08q_in_arr_duration_1 added",
 "C09-m1": "MISSED at first (no BitVec among the hostile-count shapes); a first attempt (2^29-1 bits through a four-byte prefix) only TIMED OUT under the change (inconclusive, exit 3); c09q_bitvec_no_request_before_data decides it: 63 bits through a one-byte prefix on a known-length input that is too short must not request any heap (allowance 0)",
 "C09-m2": "MISSED at first (hostile counts were never decoded through the library's wrapper inputs); c09q_wrapped_vec_* and c09q_api_limits_wide_63 added",
 "C10-m1": "MISSED at first (the ledger sees element constructions and drops, not heap blocks); live heap-block counting stubs (alloc +1 / Global::deallocate -1) with a native per-thread counterpart: c10q_blocks_*",
 "C10-m2": "MISSED at first (no transparent struct whose only sized field is skipped); STransSkipSized added, c10q_derived_*_inplace_skip / c05q_*_inplace_skip check skipped fields after Box/array decode",
 "C11-m2": "MISSED at first, and a first attempt was wrong about the chunk size (16 KiB, not 4 KiB: three 2 KiB elements are ONE chunk); c11s_multi_chunk_vec_is_one_level: 8 KiB elements (2 per chunk), third element missing, hook log must show one descend and the limited decode must stop where the unlimited one does (needs the allocator stubs: second, stubbed run of C11)",
 "C12-m1": "MISSED at first (list elements were <= pointer size, where pointer-instead-of-element is not smaller); LinkedList<[u64;5]> added to c12q_hook_every_count",
 "C13-m1": "MISSED at first (only built-in element types, whose wire and memory sizes agree); user type Rec (5 bytes on the wire, 8 in memory) in arrays: c13q_fix_arr_user_rec",
 "C13-m2": "MISSED at first (no enum whose variants share field types but differ in attributes); EDupTypes / EDupTypes2 added to the derive family",
 "C14-m1": "MISSED at first under C14's quick tier (Compact<u16> alone only in the thorough list; C04's c04q_dec_u16 catches it as-is); c14q_pfx_compact_u8/u16/u32 added and h_prefix now also demands that the full encoding followed by other data is consumed exactly",
 "C14-m2": "MISSED at first (IoReader only under C08 and only on full-length streams); std-configuration run for C14/C18 with streams that end anywhere: c14q_ioreader_*",
 "C15-m2": "MISSED at first (batches were <= 3 items or unrepresentable); the unit-item iterator now elides the loop, so EVERY batch size is decided incl. appends that skip a prefix width class -- on the unchanged tree; UNDER THIS CHANGE five harnesses run out of memory instead (inconclusive, exit 3: not a pass, not a VIOLATION line)",
 "C16-m1": "MISSED at first under C16 (EncodeLike pairs were compared through encode_to only and no pair had an array of primitives on the A side; C07's c07q_ent_arr_* catch it as-is); using_encoded added to every pair and c16q_arrays_of_primitives_pointer_forms added",
 "C16-m2": "NOT CAUGHT, outside the bounds (see C02-m1 of this round)",
 "C18-m1": "NOT CAUGHT, outside the bounds: needs a string > 128 bytes with a multi-byte character at a chunk boundary",
 "C18-m2": "MISSED at first (skip was never run through IoReader); c18q_ioreader_* added (std configuration). Under THIS change they end inconclusive (exit 3): its std::io::copy loop needs more unwinding than the harness bound, so only unwinding assertions fail and nothing replays; the check does not pass, but prints no VIOLATION line",
 "C19-m1": "MISSED at first (CountedInput was only used for decode); c19q_unkskip_* run skip through it",
 "C19-m2": "MISSED at first (the inner input always knew its length); c19q_unkskip_* use an unknown-length inner input with truncated data",
 "C20-m1": "NOT CAUGHT and outside the engine: needs a panic inside a using_encoded closure followed by another call on the same thread (Kani models panic as abort)",
 "C20-m2": "MISSED at first under C20 (Result was not in the per-configuration core list; C03's own no-std run catches it); c03q_res_u8_u16 added to the core list that runs with every optional feature off",
}
HISTORY_R4 = {
 "C01-m1": "MISSED at first (pointer-wrapped primitives as sequence ELEMENTS were only in thorough-tier matrix cells); c01q_seq_of_wrapped_primitives added and the matrix cells vec/arr3 x box_u8 forced into the quick tier",
 "C02-m1": "MISSED at first (derived types were only checked as single values, bulk paths are selected per ELEMENT type); every small family struct is now also checked as a Vec / array element (c01q_derived_*_as_elem_enc, c02q_derived_*_as_elem_rt)",
 "C03-m2": "MISSED at first under C03's quick tier (Vec<zero-sized-with-encoding> was a thorough-tier matrix cell; C02's c02q_zero_sized_elems_with_encoding catches it as-is); the cells vec/deque/list/arr3 x onev and x unit are now always in the quick tier",
 "C05-m1": "MISSED at first (explicit discriminants only on unit variants); EDiscFields (#[repr(u8)], discriminants on tuple and struct variants) added to the family",
 "C07-m2": "MISSED at first under C07 (a decode-side defect; C03's matrix cell vec x bool catches it, now always quick); c07q_bulk_decode_matches_elementwise added",
 "C08-m1": "caught as-is by C19 (c19q_bytes_through_counted_*); under C08 it is not a difference between input kinds (value and consumption agree), so C08 does not report it",
 "C08-m2": "MISSED at first (zero-width values were never decoded from an EMPTY shared buffer); c08q_bytes_empty_buffer_zero_width_values added",
 "C09-m1": "MISSED at first (skip was never run on hostile counts); c09q_skip_* added (one-byte and 2^26 counts, slice-like and unknown-length inputs)",
 "C10-m1": "MISSED at first (the ledger element did not report a fixed encoded size); TrF (ledger element overriding encoded_fixed_size) in arrays, boxes, vectors: c10q_fixed_size_elem_*",
 "C12-m1": "MISSED at first (the memory limit was never applied underneath decode_with_depth_limit / CountedInput); c12q_composed_* added",
 "C13-m1": "MISSED at first (no Result/Option/tuple in the fixed-size list); c13q_fix_res_u32_u16, c13q_fix_arr_res, ... added",
 "C13-m2": "MISSED at first (encoded_fixed_size was never read on derived types); c13q_derived_*_fixed for the whole family",
 "C14-m1": "MISSED at first under C14 (transparent newtypes through Box only under C02/C03/C05, where c03q_derived_stranszstenc_boxed_dec catches it as-is); c14q_derived_*_boxed_pfx added and h_prefix now also demands exact consumption of the full encoding",
 "C14-m2": "MISSED at first (node-based collections never held empty-encoding items); c14q_empty_items_* added",
 "C16-m1": "MISSED at first (EncodeLike string pairs only with 2-byte strings and only through encode_to); c16q_str_count_boundary_every_entry_point (63/64/65 bytes, every entry point) added",
 "C16-m2": "MISSED at first (see C14-m2); c16q_empty_encoding_element_pairs added",
 "C18-m1": "MISSED at first in the quick tier (see C03-m2: thorough-tier matrix cell); cells forced into the quick tier",
 "C18-m2": "MISSED at first (skip was never compared with decode on derived types); c18q_derived_*_skip for the whole family",
 "C19-m1": "NOT CAUGHT, outside the bounds: needs ONE successful read of >= 2^32 bytes (CBMC's object size limit; no way to hand the wrapper a 4 GiB buffer)",
 "C20-m1": "MISSED at first under C20 (EncodeAppend harnesses ran only in C15's own no-std configuration, where c15q_zst_every_count_* catches it as-is); C15 harnesses added to C20's std / chain-error / no-ext runs",
 "C20-m2": "MISSED at first under C20 (C03's no-std run catches it as-is via c03q_vec_unit_3); unit/phantom/ZST containers added to the core list that runs in every configuration",
}
if os.environ.get("SEED_SUFFIX") == "-r4":
    HISTORY = HISTORY_R4
elif os.environ.get("SEED_SUFFIX") == "-r3":
    HISTORY = HISTORY_R3
elif os.environ.get("SEED_SUFFIX"):
    HISTORY = HISTORY_R2
dst.mkdir(parents=True, exist_ok=True)
shutil.copy(src / "patch.diff", dst / "patch.diff")
shutil.copy(src / "demo.rs", dst / "demo.rs")
notes = (src / "notes.md").read_text() if (src / "notes.md").exists() else ""
(dst / "notes.md").write_text(notes)
meta = {
    "property": ID, "id": "%s-m%s%s" % (ID, k, os.environ.get("SEED_SUFFIX", "")), "source": "independent sub-agent given only the property text and a scratch worktree",
    "needs_to_manifest": notes.strip().split("\n\n")[0][:1500],
    "confirmed_by_me": {"how": "tools/confirm_seed.sh in the scratch worktree: patch applies; full suite with the change (3 known-bad UI binaries ignored); demo with change; demo without change",
                        "demo_fails_with_change": demo_with, "demo_passes_without_change": demo_without, "suite_lines": suite[:40]},
    "checks_run": [{"property": p, "exit": int(e)} for p, e in evaluated],
    "caught_by": caught, "counterexample_harnesses": harnesses,
    "caught_as_is": (sorted(set(re.findall(r"VIOLATION property=(C\d+)", (src / "eval_frozen.txt").read_text()))) if (src / "eval_frozen.txt").exists() else None),
    "history": HISTORY.get("%s-m%s" % (ID, k), "caught by the checks as they were when the change arrived (no strengthening needed)"),
    "eval_excerpt": [l for l in ev.splitlines() if "VIOLATION" in l or "INCONCLUSIVE" in l or "harnesses held" in l][:20],
}
(dst / "meta.json").write_text(json.dumps(meta, indent=1))
print(dst, "confirmed" if confirmed else "NOT CONFIRMED", "caught by", caught or "NOTHING")
