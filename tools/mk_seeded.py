#!/usr/bin/env python3
"""mk_seeded.py <ID> <k> : copy a CONFIRMED seeded change from /tmp/mut/out/<ID>/m<k> into /verif/seeded/<ID>-m<k>/ with meta.json
(needs confirm.txt from tools/confirm_seed.sh and eval.txt from tools/eval_seed.sh)"""
import json, re, shutil, sys
from pathlib import Path
ID, k = sys.argv[1], sys.argv[2]
src = Path("/tmp/mut/out") / ID / ("m" + k)
dst = Path("/verif/seeded") / ("%s-m%s" % (ID, k))
conf = (src / "confirm.txt").read_text()
ev = (src / "eval.txt").read_text() if (src / "eval.txt").exists() else ""
sec = conf.split("-- ")
suite = [l.strip() for l in sec[1].splitlines()[1:] if l.strip()] if len(sec) > 1 else []
bad_suite = [l for l in suite if ("FAILED" in l or "failed" in l) and not re.search(r"_ui|derive_no_bound_ui|scale_codec_ui_tests|zz_seed_demo|test result: FAILED. 0 passed; 1 failed", l)]
# demo tests listed in the suite run (the demo file sits in tests/ during the run) are expected to fail
demo_tests = set(re.findall(r"test (\w+) \.\.\. FAILED", sec[2])) if len(sec) > 2 else set()
bad_suite = [l for l in bad_suite if not any(t in l for t in demo_tests) and "passed;" not in l or ("passed;" in l and not re.search(r"\d+ failed", l))]
demo_with = "FAILED" in sec[2] if len(sec) > 2 else False
demo_without = ("test result: ok" in sec[3] and "FAILED" not in sec[3]) if len(sec) > 3 else False
confirmed = demo_with and demo_without
caught = sorted(set(re.findall(r"VIOLATION property=(C\d+)", ev)))
harnesses = sorted(set(re.findall(r"counterexample: (?:harness|program) (\S+?):", ev)))
evaluated = re.findall(r"seedrun: (C\d+) -> exit (\d+)", ev)
dst.mkdir(parents=True, exist_ok=True)
shutil.copy(src / "patch.diff", dst / "patch.diff")
shutil.copy(src / "demo.rs", dst / "demo.rs")
notes = (src / "notes.md").read_text() if (src / "notes.md").exists() else ""
(dst / "notes.md").write_text(notes)
meta = {
    "property": ID, "id": "%s-m%s" % (ID, k), "source": "independent sub-agent given only the property text and a scratch worktree",
    "needs_to_manifest": notes.strip().split("\n\n")[0][:1500],
    "confirmed_by_me": {"how": "tools/confirm_seed.sh in the scratch worktree: patch applies; full suite with the change (3 known-bad UI binaries ignored); demo with change; demo without change",
                        "demo_fails_with_change": demo_with, "demo_passes_without_change": demo_without, "suite_lines": suite[:40]},
    "checks_run": [{"property": p, "exit": int(e)} for p, e in evaluated],
    "caught_by": caught, "counterexample_harnesses": harnesses,
    "eval_excerpt": [l for l in ev.splitlines() if "VIOLATION" in l or "INCONCLUSIVE" in l or "harnesses held" in l][:20],
}
(dst / "meta.json").write_text(json.dumps(meta, indent=1))
print(dst, "confirmed" if confirmed else "NOT CONFIRMED", "caught by", caught or "NOTHING")
