#!/usr/bin/env python3
"""mk_seeded.py <ID> <k> : copy a CONFIRMED seeded change from /tmp/mut/out/<ID>/m<k> into /verif/seeded/<ID>-m<k>/ with meta.json
(needs confirm.txt from tools/confirm_seed.sh and eval.txt from tools/eval_seed.sh)"""
import json, re, shutil, sys
from pathlib import Path
ID, k = sys.argv[1], sys.argv[2]
import os
src = Path(os.environ.get("SEED_OUT", "/tmp/mut/out")) / ID / ("m" + k)
dst = Path("/verif/seeded") / ("%s-m%s%s" % (ID, k, os.environ.get("SEED_SUFFIX", "")))
conf = (src / "confirm.txt").read_text()
ev = (src / "eval.txt").read_text() if (src / "eval.txt").exists() else ""
sec = conf.split("-- ")
suite = [l.strip() for l in sec[1].splitlines()[1:] if l.strip()] if len(sec) > 1 else []
bad_suite = [l for l in suite if ("FAILED" in l or "failed" in l) and not re.search(r"_ui|derive_no_bound_ui|scale_codec_ui_tests|zz_seed_demo|test result: FAILED. 0 passed; 1 failed", l)]
# demo tests listed in the suite run (the demo file sits in tests/ during the run) are expected to fail
demo_tests = set(re.findall(r"test (\w+) \.\.\. FAILED", sec[2])) if len(sec) > 2 else set()
bad_suite = [l for l in bad_suite if not any(t in l for t in demo_tests) and "passed;" not in l or ("passed;" in l and not re.search(r"\d+ failed", l))]
demo_with = "FAILED" in sec[2] if len(sec) > 2 else False
demo_without = ("test result: ok" in sec[3] and "FAILED" not in sec[3]) if len(sec) > 3 else False
confirmed = demo_with and demo_without
caught = sorted(set(re.findall(r"VIOLATION property=(C\d+)", ev)))
harnesses = sorted(set(re.findall(r"counterexample: (?:harness|program) (\S+): ", ev)))
evaluated = re.findall(r"seedrun: (C\d+) -> exit (\d+)", ev)
# honest history: which seeded changes the checks caught as they were when the change arrived, and which needed strengthening first
HISTORY = {
 "C01-m1": "MISSED at first (derived enums were only checked under C05); derived members are now cross-listed under C01/C02/C03 (c01q_derived_*)",
 "C01-m2": "MISSED at first under C01 (its only bit-slice harness used a u16 store and did not finish within 300 s; the C06 harness c06q_bits_lsb_o2_n3 did catch it); bit-slice harnesses reshaped to the feasible region (Lsb0, u8 store, inside one word) and c01q_bits_lsb_o2_n4 added",
 "C02-m1": "MISSED at first (no repr(transparent) type with a compact field in the family); STransCompact/STransAs/STransSkipZst added with boxed/array decode + round trip",
 "C02-m2": "MISSED at first (no element type with an empty encoding but non-zero size); c02q_vec_of_empty_encoding_elems added",
 "C03-m2": "MISSED at first under C03 (derived enums only under C05); c03q_derived_* cross-listing added",
 "C05-m1": "MISSED at first (see C02-m1); family extended",
 "C06-m2": "MISSED at first under C06 (holders were only checked as single values); c06q_collections_of_holders added",
 "C07-m1": "MISSED at first (no io::Write sink with short writes); std-configuration run with ShortWriter added (c07q_iow_*)",
 "C08-m1": "MISSED at first (see C02-m2); c08q_in_vec_of_empty_encoding_elems added",
 "C08-m2": "MISSED at first (no zero-length read through IoReader); c08q_ioreader_zero_length_reads added",
 "C09-m2": "MISSED at first (needs a second chunk reservation: >= 16 KiB of payload); reached with 3 input bytes through 8 KiB elements (c09q_chunk_progress_*), plus assert-and-cut stubs, and a canned native witness because Kani's playback mode runs out of memory on this harness",
 "C10-m1": "MISSED at first (ledger element was not zero-sized); Zt (ZST with Drop) harnesses added; driver fixed to accept a cover-labelled playback test when it is the only one",
 "C10-m2": "MISSED at first (ledger sees drops, not heap blocks); allowance-0 allocator stubs assert that a refused Box allocation is never made (c10q_refused_*)",
 "C11-m1": "MISSED at first (empty containers were only decoded at top level); wide-but-shallow shapes and 'final depth == start depth' from any state added (c11q_restore_*, c11q_dp_empty_vec_then_*)",
 "C12-m1": "MISSED at first (only the first announcement was checked); c12q_every_chunk_announced (8 KiB elements) added",
 "C15-m1": "MISSED at first (zero-sized items were only `()`); c15q_zero_sized_items_with_encoding added",
 "C16-m2": "MISSED at first (no derived type in the EncodeLike table); c16q_derived_boxed_forms added",
 "C17-m1": "MISSED at first (no single-variant twin; the lift reported the missing kernel only as inconclusive); twins single_variant_* added",
 "C17-m2": "MISSED at first (no skip+compact conflict twin); twins skip_and_* added",
 "C20-m1": "needs the real-scale harness c20h_encode_owned_20000 (thorough tier only): one write of > 16 KiB into Vec<u8> under no-std",
}
dst.mkdir(parents=True, exist_ok=True)
shutil.copy(src / "patch.diff", dst / "patch.diff")
shutil.copy(src / "demo.rs", dst / "demo.rs")
notes = (src / "notes.md").read_text() if (src / "notes.md").exists() else ""
(dst / "notes.md").write_text(notes)
meta = {
    "property": ID, "id": "%s-m%s" % (ID, k), "source": "independent sub-agent given only the property text and a scratch worktree",
    "needs_to_manifest": notes.strip().split("\n\n")[0][:1500],
    "confirmed_by_me": {"how": "tools/confirm_seed.sh in the scratch worktree: patch applies; full suite with the change (3 known-bad UI binaries ignored); demo with change; demo without change",
                        "demo_fails_with_change": demo_with, "demo_passes_without_change": demo_without, "suite_lines": suite[:40]},
    "checks_run": [{"property": p, "exit": int(e)} for p, e in evaluated],
    "caught_by": caught, "counterexample_harnesses": harnesses,
    "history": HISTORY.get("%s-m%s" % (ID, k), "caught by the checks as they were when the change arrived (no strengthening needed)"),
    "eval_excerpt": [l for l in ev.splitlines() if "VIOLATION" in l or "INCONCLUSIVE" in l or "harnesses held" in l][:20],
}
(dst / "meta.json").write_text(json.dumps(meta, indent=1))
print(dst, "confirmed" if confirmed else "NOT CONFIRMED", "caught by", caught or "NOTHING")
