// replay for property C04, harness c04_compact::c04q_dec_u64
// features: c04
// run: tools/check.py C04 --replay /verif/replays/C04-c04q_dec_u64-b7b065e816.rs
#[allow(unused_imports)]
use alloc::{vec, vec::Vec};
/// Test generated for harness `c04_compact::c04q_dec_u64` 
///
/// Check for `assertion`: ""decoder accepted a non-canonical / over-wide / truncated compact""

#[test]
fn kani_concrete_playback_c04q_dec_u64_2881765394291482721() {
    let concrete_vals: Vec<Vec<u8>> = vec![
        // 15
        vec![15],
        // 255
        vec![255],
        // 255
        vec![255],
        // 255
        vec![255],
        // 255
        vec![255],
        // 255
        vec![255],
        // 255
        vec![255],
        // 0
        vec![0],
        // 190
        vec![190],
        // 131
        vec![131],
        // 10ul
        vec![10, 0, 0, 0, 0, 0, 0, 0],
    ];
    kani::concrete_playback_run(concrete_vals, crate::c04_compact::c04q_dec_u64);
}
