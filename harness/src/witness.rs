//! Canned concrete witnesses for harnesses whose counterexample values cannot be extracted from the solver (Kani's
//! concrete-playback mode switches formula slicing off, and the 8 KiB-element harnesses then run out of memory at 30 GB).
//! When the solver reports a failed check for such a harness and no playback test can be produced, the driver runs the
//! witness of the same name natively against the real build instead: a native failure on a concrete input is a real
//! violation wherever the input came from; if the witness passes, the result stays inconclusive.
//! Layout of the value vector = one little-endian entry per `kani::any()` call of the harness, in call order.
use alloc::{vec, vec::Vec};

fn le(x: usize) -> Vec<u8> { x.to_le_bytes().to_vec() }

#[cfg(feature = "c09")]
pub fn witness_c09q_chunk_progress_unk_1000() { kani::concrete_playback_run(vec![vec![1], vec![2], vec![3], le(3)], crate::c09_alloc::c09q_chunk_progress_unk_1000) }
#[cfg(feature = "c09")]
pub fn witness_c09q_chunk_progress_slice_max() { kani::concrete_playback_run(vec![vec![1], vec![2], vec![3], le(3)], crate::c09_alloc::c09q_chunk_progress_slice_max) }
#[cfg(feature = "c09")]
pub fn witness_c09t_chunk_progress_unk_5bytes() { kani::concrete_playback_run(vec![vec![1], vec![2], vec![3], vec![4], vec![5], le(5)], crate::c09_alloc::c09t_chunk_progress_unk_5bytes) }
#[cfg(feature = "c12")]
pub fn witness_c12q_every_chunk_announced() { kani::concrete_playback_run(vec![vec![1], vec![2], vec![3], le(2 * 8192 + 1)], crate::c12_memlimit::c12q_every_chunk_announced) }
