//! C16 Types declared to encode alike really do: for every `impl EncodeLike<B> for A` family,
//! bytes(a) == bytes(conv(a)) and decoding bytes(a) as B gives conv(a), consuming everything.
//! The `EncodeLike<B>` bound is *required* by `like()`, so a removed impl is a build failure
//! and the table is checked against a source scan by the driver.
use crate::{gen::*, io::*, spec::*, sym::Sym};
use alloc::{borrow::Cow, boxed::Box, collections::*, rc::Rc, string::String, sync::Arc, vec::Vec};
use parity_scale_codec::{Compact, CompactRef, Decode, Encode, EncodeLike, OptionBool, Ref};

/// core obligation for one (A, B) pair
pub fn like<A: EncodeLike<B>, B: Encode + Decode + Spec, const N: usize>(a: &A, b: &B) {
	let mut ba = Buf::<N>::new();
	a.encode_to(&mut ba);
	let mut bb = Buf::<N>::new();
	b.encode_to(&mut bb);
	assert!(same_bytes(&ba, &bb), "a type declared EncodeLike<B> does not produce B's bytes");
	// every entry point of A describes the same bytes (a consumer of `EncodeLike<B>` may use any of them)
	assert!(a.using_encoded(|s| same_slice(s, bb.bytes())), "using_encoded of a type declared EncodeLike<B> does not produce B's bytes");
	let mut inp = ba.bytes();
	match B::decode(&mut inp) {
		Ok(d) => { assert!(d.same(b) && inp.is_empty(), "bytes of an EncodeLike<B> value decode to a different B"); core::mem::forget(d); },
		Err(_) => { assert!(false, "bytes of an EncodeLike<B> value do not decode as B"); },
	}
}

/// same for sequence-like B: the count the encoder wrote is asserted and served concretely (rule R2)
pub fn like_cnt<A: EncodeLike<B>, B: Encode + Decode + Spec, const N: usize>(a: &A, b: &B, c: usize, fixed_len: Option<usize>) {
	let mut ba = Buf::<N>::new();
	a.encode_to(&mut ba);
	let mut bb = Buf::<N>::new();
	b.encode_to(&mut bb);
	assert!(same_bytes(&ba, &bb), "a type declared EncodeLike<B> does not produce B's bytes");
	assert!(ba.n >= 1 && ba.d[0] == (c as u8) << 2);
	assert!(a.using_encoded(|s| same_slice(s, bb.bytes())), "using_encoded of a type declared EncodeLike<B> does not produce B's bytes");
	let end = match fixed_len { Some(l) => { assert!(ba.n == 1 + l); 1 + l }, None => ba.n };
	let mut inp = Pre::count(c, &ba.d[1..end]);
	match B::decode(&mut inp) {
		Ok(d) => { assert!(d.same(b) && inp.rest.is_empty(), "bytes of an EncodeLike<B> value decode to a different B"); core::mem::forget(d); },
		Err(_) => { assert!(false, "bytes of an EncodeLike<B> value do not decode as B"); },
	}
}

fn pointers<T: Encode + Decode + Spec + Sym + Clone + EncodeLike, const N: usize>(c: usize) {
	let mut v = T::sym(c);
	let w = v.clone();
	like::<Box<T>, T, N>(&Box::new(v.clone()), &w);
	like::<T, Box<T>, N>(&v, &Box::new(w.clone()));
	like::<&T, T, N>(&&v, &w);
	like::<&&T, T, N>(&&&v, &w);
	like::<Rc<T>, T, N>(&Rc::new(v.clone()), &w);
	like::<T, Rc<T>, N>(&v, &Rc::new(w.clone()));
	like::<Arc<T>, T, N>(&Arc::new(v.clone()), &w);
	like::<T, Arc<T>, N>(&v, &Arc::new(w.clone()));
	like::<Cow<T>, T, N>(&Cow::Borrowed(&v), &w);
	like::<Cow<T>, T, N>(&Cow::Owned(v.clone()), &w);
	let r: Ref<T, T> = Ref::from(&v);
	like::<Ref<T, T>, T, N>(&r, &w);
	like::<&Ref<T, T>, T, N>(&&r, &w);
	like::<&mut T, T, N>(&&mut v, &w);
	core::mem::forget((v, w));
}
#[kani::proof]
#[kani::unwind(8)]
pub fn c16q_pointers_u32() { pointers::<u32, 8>(0) }
#[kani::proof]
#[kani::unwind(8)]
pub fn c16q_pointers_vec_u8() { pointers::<Vec<u8>, 8>(2) }
#[kani::proof]
#[kani::unwind(8)]
pub fn c16t_pointers_opt_bool() { pointers::<Option<bool>, 4>(0) }

#[kani::proof]
#[kani::unwind(8)]
pub fn c16q_string_str() {
	let s = String::sym(2);
	like_cnt::<&str, String, 8>(&s.as_str(), &s, 2, Some(2));
	// String: EncodeLike<&str>: B = &str cannot be decoded; compare bytes only
	let mut a = Buf::<8>::new(); s.encode_to(&mut a);
	let mut b = Buf::<8>::new(); s.as_str().encode_to(&mut b);
	assert!(same_bytes(&a, &b), "String and &str encode differently");
	fn need<A: EncodeLike<B>, B: Encode>() {}
	need::<String, &str>();
	core::mem::forget(s);
}

/// strings of 63 / 64 / 65 bytes (the count prefix changes width at 64) through EVERY entry point of &str, String, Cow, Box<str>-like
/// holders: all must give String's bytes
#[kani::proof]
#[kani::unwind(70)]
pub fn c16q_str_count_boundary_every_entry_point() {
	let mut raw = [0u8; 65];
	let mut i = 0;
	while i < 65 { raw[i] = b'a' + (i % 26) as u8; i += 1; }
	let x: u8 = kani::any();
	kani::assume(x < 0x80);
	raw[7] = x;
	macro_rules! at { ($n:literal, $plen:literal) => {{
		let st = unsafe { core::str::from_utf8_unchecked(&raw[..$n]) };
		let owned = String::from(st);
		let mut want = Buf::<70>::new();
		owned.encode_to(&mut want);
		assert!(want.n == $plen + $n, "String: wrong length");
		if $plen == 1 { assert!(want.d[0] == ($n as u8) << 2); } else { assert!(want.d[0] == ((($n as u16) << 2) as u8) | 1 && want.d[1] == ((($n as u16) << 2) >> 8) as u8); }
		let mut b = Buf::<70>::new(); st.encode_to(&mut b);
		assert!(same_bytes(&b, &want), "&str encode_to differs from String");
		assert!(st.using_encoded(|s| same_slice(s, want.bytes())), "&str using_encoded differs from String");
		assert!(owned.using_encoded(|s| same_slice(s, want.bytes())), "String using_encoded differs from String::encode_to");
		let cow: Cow<str> = Cow::Borrowed(st);
		assert!(cow.using_encoded(|s| same_slice(s, want.bytes())), "Cow<str> using_encoded differs from String");
		let rc = Rc::new(owned.clone());
		assert!(rc.using_encoded(|s| same_slice(s, want.bytes())), "Rc<String> using_encoded differs from String");
		assert!(st.encoded_size() == $plen + $n && owned.encoded_size() == $plen + $n);
		core::mem::forget((owned, rc));
	}}; }
	at!(63, 1); at!(64, 2); at!(65, 2);
}
/// containers whose ELEMENTS have an empty encoding: slices, vectors, deques and lists of them are mutually encode-alike and the
/// bytes (just the count) decode as each of them
#[kani::proof]
#[kani::unwind(8)]
pub fn c16q_empty_encoding_element_pairs() {
	let units = [(), (), ()];
	let sl: &[()] = &units[..];
	let v: Vec<()> = alloc::vec![(), (), ()];
	let mut l: LinkedList<()> = LinkedList::new(); l.push_back(()); l.push_back(()); l.push_back(());
	let mut d: VecDeque<()> = VecDeque::new(); d.push_back(()); d.push_back(()); d.push_back(());
	like_cnt::<&[()], Vec<()>, 4>(&sl, &v, 3, Some(0));
	let tups = [((),), ((),), ((),)];
	let tsl: &[((),)] = &tups[..];
	like_cnt::<&[((),)], LinkedList<()>, 4>(&tsl, &l, 3, Some(0));
	like_cnt::<LinkedList<()>, LinkedList<()>, 4>(&l, &l, 3, Some(0));
	like_cnt::<&[()], VecDeque<()>, 4>(&sl, &d, 3, Some(0));
	like_cnt::<Vec<()>, VecDeque<()>, 4>(&v, &d, 3, Some(0));
	let refs: LinkedList<&()> = units.iter().collect();
	like_cnt::<LinkedList<&()>, LinkedList<()>, 4>(&refs, &l, 3, Some(0));
	core::mem::forget((v, l, d, refs));
}

/// arrays of primitives have entry points of their own (using_encoded hands out the array's memory): pointer forms of an array
/// must produce the array's bytes through every entry point
#[kani::proof]
#[kani::unwind(14)]
pub fn c16q_arrays_of_primitives_pointer_forms() {
	let a: [u32; 2] = kani::any();
	like::<[u32; 2], [u32; 2], 12>(&a, &a);
	like::<&[u32; 2], [u32; 2], 12>(&&a, &a);
	like::<Box<[u32; 2]>, [u32; 2], 12>(&Box::new(a), &a);
	like::<Rc<[u32; 2]>, [u32; 2], 12>(&Rc::new(a), &a);
	let h: [u16; 3] = kani::any();
	like::<Arc<[u16; 3]>, [u16; 3], 12>(&Arc::new(h), &h);
	let r: [&u16; 3] = [&h[0], &h[1], &h[2]];
	like::<[&u16; 3], [u16; 3], 12>(&r, &h);
	let f: [f32; 1] = kani::any();
	like::<&[f32; 1], [f32; 1], 12>(&&f, &f);
	let n: [[i16; 2]; 2] = kani::any();
	like::<&[[i16; 2]; 2], [[i16; 2]; 2], 12>(&&n, &n);
}

#[kani::proof]
#[kani::unwind(8)]
pub fn c16q_option_result_array_tuple() {
	let x: u32 = kani::any();
	let y: u16 = kani::any();
	let o: Option<u32> = if kani::any() { Some(x) } else { None };
	let oa: Option<&u32> = o.as_ref();
	like::<Option<&u32>, Option<u32>, 8>(&oa, &o);
	let ob: Option<Box<u32>> = o.map(Box::new);
	like::<Option<Box<u32>>, Option<u32>, 8>(&ob, &o);
	let r: Result<u32, u16> = if kani::any() { Ok(x) } else { Err(y) };
	let ra: Result<&u32, Box<u16>> = match &r { Ok(a) => Ok(a), Err(e) => Err(Box::new(*e)) };
	like::<Result<&u32, Box<u16>>, Result<u32, u16>, 8>(&ra, &r);
	let arr: [u16; 2] = kani::any();
	let arr_ref: [&u16; 2] = [&arr[0], &arr[1]];
	like::<[&u16; 2], [u16; 2], 8>(&arr_ref, &arr);
	like::<(&u32,), (u32,), 8>(&(&x,), &(x,));
	like::<(&u32, Box<u16>), (u32, u16), 8>(&(&x, Box::new(y)), &(x, y));
	like::<(&u32, u16, &bool), (u32, u16, bool), 8>(&(&x, y, &true), &(x, y, true));
}
#[kani::proof]
#[kani::unwind(21)]
pub fn c16t_tuple18() {
	let a: [u8; 18] = kani::any();
	let t = (a[0], a[1], a[2], a[3], a[4], a[5], a[6], a[7], a[8], a[9], a[10], a[11], a[12], a[13], a[14], a[15], a[16], a[17]);
	let tr = (&a[0], &a[1], &a[2], &a[3], &a[4], &a[5], &a[6], &a[7], &a[8], &a[9], &a[10], &a[11], &a[12], &a[13], &a[14], &a[15], &a[16], &a[17]);
	like::<_, (u8, u8, u8, u8, u8, u8, u8, u8, u8, u8, u8, u8, u8, u8, u8, u8, u8, u8), 20>(&tr, &t);
}

#[kani::proof]
#[kani::unwind(8)]
pub fn c16q_sequences() {
	let v = Vec::<u16>::sym(2);
	let vr: Vec<&u16> = alloc::vec![&v[0], &v[1]];
	like::<Vec<&u16>, Vec<u16>, 8>(&vr, &v);
	let sl: &[u16] = &v[..];
	like::<&[u16], Vec<u16>, 8>(&sl, &v);
	let d: VecDeque<u16> = v.iter().cloned().collect();
	like::<VecDeque<u16>, Vec<u16>, 8>(&d, &v);
	like::<Vec<u16>, VecDeque<u16>, 8>(&v, &d);
	like::<&[u16], VecDeque<u16>, 8>(&sl, &d);
	like::<VecDeque<u16>, VecDeque<u16>, 8>(&d, &d);
	// Vec<T>: EncodeLike<&[U]> and VecDeque<T>: EncodeLike<&[U]>: bytes only (B not decodable)
	fn need<A: EncodeLike<B>, B: Encode>() {}
	need::<Vec<u16>, &[u16]>();
	need::<VecDeque<u16>, &[u16]>();
	let mut a = Buf::<8>::new(); v.encode_to(&mut a);
	let mut b = Buf::<8>::new(); sl.encode_to(&mut b);
	let mut c = Buf::<8>::new(); d.encode_to(&mut c);
	assert!(same_bytes(&a, &b) && same_bytes(&a, &c));
	core::mem::forget(vr); core::mem::forget((v, d));
}
fn need<A: EncodeLike<B>, B: Encode>() {}
#[kani::proof]
#[kani::unwind(8)]
pub fn c16q_list_vs_slice() {
	let x: [u8; 2] = kani::any();
	let mut l = LinkedList::new(); l.push_back(x[0]); l.push_back(x[1]);
	let sl: &[(u8,)] = &[(x[0],), (x[1],)];
	like_cnt::<&[(u8,)], LinkedList<u8>, 8>(&sl, &l, 2, Some(2));
	let mut lr = LinkedList::new(); lr.push_back(&x[0]); lr.push_back(&x[1]);
	like_cnt::<LinkedList<&u8>, LinkedList<u8>, 8>(&lr, &l, 2, Some(2));
	need::<LinkedList<u8>, &[(u8,)]>();
	core::mem::forget((l, lr));
}
#[kani::proof]
#[kani::unwind(8)]
pub fn c16q_map_vs_slice() {
	let x: [u8; 2] = kani::any();
	let mut m = BTreeMap::new(); m.insert(x[0], x[1]);
	let ms: &[(u8, u8)] = &[(x[0], x[1])];
	like_cnt::<&[(u8, u8)], BTreeMap<u8, u8>, 8>(&ms, &m, 1, Some(2));
	let mut mr = BTreeMap::new(); mr.insert(&x[0], Box::new(x[1]));
	like_cnt::<BTreeMap<&u8, Box<u8>>, BTreeMap<u8, u8>, 8>(&mr, &m, 1, Some(2));
	need::<BTreeMap<u8, u8>, &[(u8, u8)]>();
	core::mem::forget((m, mr));
}
#[kani::proof]
#[kani::unwind(8)]
pub fn c16q_set_heap_vs_slice() {
	let x: [u8; 2] = kani::any();
	let mut s = BTreeSet::new(); s.insert(x[0]);
	let ss: &[(u8,)] = &[(x[0],)];
	like_cnt::<&[(u8,)], BTreeSet<u8>, 8>(&ss, &s, 1, Some(1));
	let mut h = BinaryHeap::new(); h.push(x[1]);
	let hs: &[(u8,)] = &[(x[1],)];
	like_cnt::<&[(u8,)], BinaryHeap<u8>, 8>(&hs, &h, 1, Some(1));
	need::<BTreeSet<u8>, &[(u8,)]>();
	need::<BinaryHeap<u8>, &[(u8,)]>();
	core::mem::forget((s, h));
}
#[kani::proof]
#[kani::unwind(19)]
pub fn c16q_compact_and_selfs() {
	let v: u64 = kani::any();
	like::<Compact<u64>, Compact<u64>, 20>(&Compact(v), &Compact(v));
	let mut a = Buf::<20>::new(); CompactRef(&v).encode_to(&mut a);
	let mut b = Buf::<20>::new(); Compact(v).encode_to(&mut b);
	assert!(same_bytes(&a, &b), "CompactRef and Compact differ");
	let ob = OptionBool::sym(0);
	like::<OptionBool, OptionBool, 4>(&ob, &ob);
	let d = core::time::Duration::sym(0);
	like::<core::time::Duration, core::time::Duration, 16>(&d, &d);
	let nz = core::num::NonZeroU16::sym(0);
	like::<core::num::NonZeroU16, core::num::NonZeroU16, 4>(&nz, &nz);
	like::<core::marker::PhantomData<u8>, core::marker::PhantomData<u8>, 4>(&core::marker::PhantomData, &core::marker::PhantomData);
	like::<(), (), 4>(&(), &());
	let f: bool = kani::any();
	like::<bool, bool, 4>(&f, &f);
}

/// derived types: `T: EncodeLike<Box<T>>` etc. must hold for derived T too, incl. repr(transparent) newtypes with a
/// compact field (whose boxed / array forms decode through the in-place decode_into path)
#[kani::proof]
#[kani::unwind(19)]
pub fn c16q_derived_boxed_forms() {
	use crate::gen_derive::{STransCompact, SMixed3, ETuple};
	let v = STransCompact::sym(0);
	let w = STransCompact(v.0);
	like::<STransCompact, Box<STransCompact>, 8>(&v, &Box::new(w));
	let w = STransCompact(v.0);
	like::<STransCompact, Rc<STransCompact>, 8>(&v, &Rc::new(w));
	let w2 = [STransCompact(v.0), STransCompact(v.0)];
	like::<[&STransCompact; 2], [STransCompact; 2], 12>(&[&v, &v], &w2);
	like::<STransCompact, STransCompact, 8>(&v, &v);
	let m = SMixed3::sym(0);
	let m2 = SMixed3 { f0: m.f0, f1: m.f1, f2: m.f2 };
	like::<&SMixed3, SMixed3, 12>(&&m, &m2);
	like::<SMixed3, Arc<SMixed3>, 12>(&m, &Arc::new(m2));
}

#[kani::proof]
#[kani::unwind(8)]
pub fn c16q_pointer_to_zero_sized_with_encoding() {
	use crate::gen_derive::OneV;
	like::<OneV, Box<OneV>, 4>(&OneV::Only, &Box::new(OneV::Only));
	like::<OneV, Rc<OneV>, 4>(&OneV::Only, &Rc::new(OneV::Only));
	like::<&OneV, OneV, 4>(&&OneV::Only, &OneV::Only);
	// and a following value is read from the right offset
	let t = (OneV::Only, 0xabu8);
	let mut b = Buf::<4>::new(); t.encode_to(&mut b);
	let mut inp = b.bytes();
	match <(Arc<OneV>, u8)>::decode(&mut inp) { Ok((_, x)) => { assert!(x == 0xab && inp.is_empty()); }, Err(_) => { assert!(false, "tuple with a pointer to a zero-sized value failed to decode"); } }
	let bad = [6u8];
	assert!(Box::<OneV>::decode(&mut &bad[..]).is_err(), "Box<T> accepted bytes T rejects");
}
/// slices are declared to encode like the map/set they list, whatever their order: two concrete keys out of order
#[kani::proof]
#[kani::unwind(8)]
pub fn c16t_unsorted_slice_vs_map() {
	let v: [u8; 2] = kani::any();
	let mut m = BTreeMap::new(); m.insert(3u8, v[0]); m.insert(9u8, v[1]);
	let unsorted: &[(u8, u8)] = &[(9, v[1]), (3, v[0])];
	let mut a = Buf::<8>::new(); unsorted.encode_to(&mut a);
	assert!(a.n == 5 && a.d[0] == 8);
	let r = BTreeMap::<u8, u8>::decode(&mut Pre::count(2, &a.d[1..5]));
	match &r { Ok(d) => { assert!(d.same(&m), "bytes of an unsorted slice decode to a different map"); }, Err(_) => { assert!(false, "bytes of a slice declared EncodeLike<BTreeMap> do not decode as the map"); } }
	core::mem::forget((m, r));
}

/// negative twin: u16 "like" u32 must FAIL
#[kani::proof]
#[kani::unwind(8)]
pub fn c16n_twin_u16_like_u32() {
	let v: u16 = kani::any();
	let mut a = Buf::<8>::new(); v.encode_to(&mut a);
	let mut b = Buf::<8>::new(); (v as u32).encode_to(&mut b);
	assert!(same_bytes(&a, &b));
}
