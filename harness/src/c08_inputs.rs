//! C08 Decoding is independent of the Input implementation.
use crate::{gen::*, io::*, spec::*};
use alloc::{boxed::Box, collections::*, string::String, vec::Vec};
use parity_scale_codec::{Compact, CountedInput, Decode, DecodeLimit, DecodeWithMemLimit, DecodeWithMemTracking, Encode, Error, Input, MemTrackingInput};

fn same_outcome<T: Spec>(base: &Result<T, Error>, used0: usize, r: &Result<T, Error>, used: usize) {
	match (base, r) {
		(Ok(a), Ok(b)) => { assert!(a.same(b), "value depends on the Input implementation"); assert!(used0 == used, "bytes consumed depend on the Input implementation"); },
		(Err(_), Err(_)) => {},
		_ => assert!(false, "success/failure depends on the Input implementation"),
	}
}

/// fixed-shape types over ALL byte strings of symbolic length <= L: slice vs unknown-length vs every wrapper stack
pub fn h_inputs<T: DecodeWithMemTracking + Spec, const L: usize>() {
	let bytes: [u8; L] = kani::any();
	let len: usize = kani::any();
	kani::assume(len <= L);
	let mut s0 = &bytes[..len];
	let r0 = T::decode(&mut s0);
	let u0 = len - s0.len();
	macro_rules! via { ($mk:expr, $msg:literal) => {{
		let mut s = &bytes[..len];
		let r: Result<T, Error> = { let base = &mut s; $mk(base) };
		same_outcome(&r0, u0, &r, len - s.len());
		core::mem::forget(r);
	}}; }
	// unknown remaining length
	{
		let mut u = Unk(&bytes[..len]);
		let r = T::decode(&mut u);
		same_outcome(&r0, u0, &r, len - u.0.len());
		core::mem::forget(r);
	}
	// single wrappers with non-binding limits
	via!(|b: &mut &[u8]| T::decode(&mut CountedInput::new(b)), "counted");
	via!(|b: &mut &[u8]| T::decode_with_depth_limit(u32::MAX, b), "depth");
	via!(|b: &mut &[u8]| T::decode_with_mem_limit(b, usize::MAX), "mem");
	// stacks of two and three, every order the public API allows (the depth tracker is always outermost)
	via!(|b: &mut &[u8]| T::decode(&mut CountedInput::new(&mut MemTrackingInput::new(b, usize::MAX))), "counted(mem)");
	via!(|b: &mut &[u8]| T::decode(&mut MemTrackingInput::new(&mut CountedInput::new(b), usize::MAX)), "mem(counted)");
	via!(|b: &mut &[u8]| T::decode_with_depth_limit(u32::MAX, &mut CountedInput::new(b)), "depth(counted)");
	via!(|b: &mut &[u8]| T::decode_with_depth_limit(u32::MAX, &mut MemTrackingInput::new(b, usize::MAX)), "depth(mem)");
	via!(|b: &mut &[u8]| T::decode_with_depth_limit(u32::MAX, &mut CountedInput::new(&mut MemTrackingInput::new(b, usize::MAX))), "depth(counted(mem))");
	via!(|b: &mut &[u8]| T::decode_with_depth_limit(u32::MAX, &mut MemTrackingInput::new(&mut CountedInput::new(b), usize::MAX)), "depth(mem(counted))");
	kani::cover!(r0.is_ok(), "reach: accepted");
	kani::cover!(r0.is_err(), "info: rejected");
	core::mem::forget(r0);
}
macro_rules! inp_q { ($($n:ident: $t:ty, $l:literal, $u:literal;)*) => { paste::paste! { $(
	#[kani::proof] #[kani::unwind($u)] pub fn [<c08q_in_ $n>]() { h_inputs::<$t, $l>() } )* } } }
macro_rules! inp_t { ($($n:ident: $t:ty, $l:literal, $u:literal;)*) => { paste::paste! { $(
	#[kani::proof] #[kani::unwind($u)] pub fn [<c08t_in_ $n>]() { h_inputs::<$t, $l>() } )* } } }
crate::fixed_types_q!(inp_q);
crate::fixed_types_t!(inp_t);
/// wide compacts: slim variant (slice vs unknown-length vs one three-deep stack)
pub fn h_inputs_slim<T: DecodeWithMemTracking + Spec, const L: usize>() {
	let bytes: [u8; L] = kani::any();
	let len: usize = kani::any();
	kani::assume(len <= L);
	let mut s0 = &bytes[..len];
	let r0 = T::decode(&mut s0);
	let u0 = len - s0.len();
	let mut u = Unk(&bytes[..len]);
	let r = T::decode(&mut u);
	same_outcome(&r0, u0, &r, len - u.0.len());
	let mut s = &bytes[..len];
	let r2 = T::decode_with_depth_limit(u32::MAX, &mut CountedInput::new(&mut MemTrackingInput::new(&mut s, usize::MAX)));
	same_outcome(&r0, u0, &r2, len - s.len());
}
#[kani::proof] #[kani::unwind(16)] pub fn c08q_in_arr_duration_1() { h_inputs_slim::<[core::time::Duration; 1], 13>() }
#[kani::proof] #[kani::unwind(28)] pub fn c08t_in_arr_duration_2() { h_inputs_slim::<[core::time::Duration; 2], 25>() }
#[kani::proof] #[kani::unwind(16)] pub fn c08q_in_arr_optbool_3() { h_inputs_slim::<[parity_scale_codec::OptionBool; 3], 4>() }
#[kani::proof] #[kani::unwind(19)] pub fn c08t_in_compact_u64_slim() { h_inputs_slim::<Compact<u64>, 10>() }

/// empty-encoding element types with a non-zero size: a sequence of them is just its count, whatever the input kind
#[cfg(feature = "ext")]
pub mod empty_encoding {
	use super::*;
	#[derive(Encode, Decode, Default)]
	pub struct AllSkipped { #[codec(skip)] pub a: u64 }
	impl DecodeWithMemTracking for AllSkipped {}
	#[kani::proof]
	#[kani::unwind(8)]
	pub fn c08q_in_vec_of_empty_encoding_elems() {
		let bytes: [u8; 2] = kani::any();
		let len: usize = kani::any();
		kani::assume(len <= 2);
		let mut a = Pre::count(3, &bytes[..len]);
		let ra = Vec::<AllSkipped>::decode(&mut a);
		let mut b = PreUnk(Pre::count(3, &bytes[..len]));
		let rb = Vec::<AllSkipped>::decode(&mut b);
		let mut c = Pre::count(3, &bytes[..len]);
		let rc = Vec::<AllSkipped>::decode(&mut CountedInput::new(&mut c));
		assert!(ra.is_ok() && rb.is_ok() && rc.is_ok(), "a sequence of empty-encoding elements must decode from any input kind");
		assert!(a.rest.len() == len && b.0.rest.len() == len && c.rest.len() == len, "nothing but the count may be consumed");
		let rd = alloc::collections::VecDeque::<AllSkipped>::decode(&mut Pre::count(2, &bytes[..0]));
		assert!(rd.map(|d| d.len()) == Ok(2));
		core::mem::forget((ra, rb, rc));
	}
}

/// containers: concrete count prefix; slice-like vs unknown-length vs wrapper stacks
pub fn h_inputs_cnt<T: DecodeWithMemTracking + Spec, const L: usize>(c: u32, symbolic_len: bool) {
	let bytes: [u8; L] = kani::any();
	let len: usize = if symbolic_len { kani::any() } else { L };
	kani::assume(len <= L);
	let mut s0 = Pre::count32(c, &bytes[..len]);
	let r0 = T::decode(&mut s0);
	let u0 = len - s0.rest.len();
	{
		let mut u = PreUnk(Pre::count32(c, &bytes[..len]));
		let r = T::decode(&mut u);
		same_outcome(&r0, u0, &r, len - u.0.rest.len());
		core::mem::forget(r);
	}
	{
		let mut s = Pre::count32(c, &bytes[..len]);
		let r = T::decode_with_depth_limit(u32::MAX, &mut MemTrackingInput::new(&mut CountedInput::new(&mut s), usize::MAX));
		same_outcome(&r0, u0, &r, len - s.rest.len());
		core::mem::forget(r);
	}
	{
		let mut s = PreUnk(Pre::count32(c, &bytes[..len]));
		let r = T::decode(&mut CountedInput::new(&mut MemTrackingInput::new(&mut s, usize::MAX)));
		same_outcome(&r0, u0, &r, len - s.0.rest.len());
		core::mem::forget(r);
	}
	kani::cover!(r0.is_ok(), "info: accepted");
	kani::cover!(true, "reach: end of harness");
	core::mem::forget(r0);
}
macro_rules! inc_q { ($($n:ident: $t:ty, $c:expr, $l:literal, $nn:literal, $s:literal, $u:literal;)*) => { paste::paste! { $(
	#[kani::proof] #[kani::unwind($u)] pub fn [<c08q_in_ $n>]() { h_inputs_cnt::<$t, $l>($c, $s) } )* } } }
macro_rules! inc_t { ($($n:ident: $t:ty, $c:expr, $l:literal, $nn:literal, $s:literal, $u:literal;)*) => { paste::paste! { $(
	#[kani::proof] #[kani::unwind($u)] pub fn [<c08t_in_ $n>]() { h_inputs_cnt::<$t, $l>($c, $s) } )* } } }
crate::cnt_types_q!(inc_q);
crate::cnt_types_t!(inc_t);

/// a wrapper stacked ABOVE a finite, non-binding depth limit: hooks must be forwarded both ways (a swallowed ascend makes
/// the tracked depth only grow, so wide-but-shallow values fail). The outer type's Decode wraps its input in CountedInput.
pub struct CountedVecOfBoxes(pub Vec<Box<u8>>);
impl Decode for CountedVecOfBoxes {
	fn decode<I: Input>(input: &mut I) -> Result<Self, Error> {
		let mut c = CountedInput::new(input);
		let v = Vec::<Box<u8>>::decode(&mut c)?;
		Ok(CountedVecOfBoxes(v))
	}
}
#[kani::proof]
#[kani::unwind(8)]
pub fn c08q_counted_above_finite_depth_limit() {
	let bytes: [u8; 3] = kani::any();
	// three boxes in a vector: nesting depth 2, whatever the number of siblings
	let r = CountedVecOfBoxes::decode_with_depth_limit(2, &mut Pre::count(3, &bytes[..]));
	let r0 = Vec::<Box<u8>>::decode_with_depth_limit(2, &mut Pre::count(3, &bytes[..]));
	assert!(r0.is_ok(), "depth 2 suffices for a vector of boxes");
	assert!(r.is_ok(), "the same value failed under the same non-binding limit once CountedInput sits above the depth tracker");
	let mut sl = &bytes[..];
	let mut m = MemTrackingInput::new(&mut sl, usize::MAX);
	let r2 = <[Box<Box<u8>>; 3]>::decode_with_depth_limit(2, &mut CountedInput::new(&mut m));
	assert!(r2.is_ok(), "depth 2 suffices for three sibling Box<Box<u8>> through counted(mem) under a depth limit");
	core::mem::forget((r, r0, r2));
}

/// the remaining_len guard before the bulk read: count exceeds the data; known vs unknown length must agree (both Err)
#[kani::proof]
#[kani::unwind(8)]
pub fn c08q_guard_count_exceeds_data() {
	let bytes: [u8; 5] = kani::any();
	let len: usize = kani::any();
	kani::assume(len <= 5);
	let a = parity_scale_codec::decode_vec_with_len::<u16, _>(&mut &bytes[..len], 3);
	let b = parity_scale_codec::decode_vec_with_len::<u16, _>(&mut Unk(&bytes[..len]), 3);
	assert!(a.is_err() && b.is_err(), "known-length and unknown-length inputs disagree when the count exceeds the data");
	core::mem::forget((a, b));
}

/// shared byte buffer: decode_from_bytes vs slice, incl. the zero-copy `Bytes` path and two consecutive values
#[kani::proof]
#[kani::unwind(8)]
pub fn c08q_bytes_cursor_scalars() {
	let bytes: [u8; 5] = kani::any();
	let v = alloc::vec![bytes[0], bytes[1], bytes[2], bytes[3], bytes[4]];
	let r1 = parity_scale_codec::decode_from_bytes::<(u16, Option<u16>)>(bytes::Bytes::from(v));
	let mut s = &bytes[..];
	let r0 = <(u16, Option<u16>)>::decode(&mut s);
	match (&r0, &r1) { (Ok(a), Ok(b)) => assert!(a == b, "decode_from_bytes differs from slice decode"), (Err(_), Err(_)) => {}, _ => assert!(false, "decode_from_bytes: success differs from slice decode") }
}
/// values with an EMPTY encoding decode from an empty input of every kind (slice, unknown-length, shared buffer)
#[kani::proof]
#[kani::unwind(6)]
pub fn c08q_bytes_empty_buffer_zero_width_values() {
	use core::marker::PhantomData;
	macro_rules! z { ($t:ty) => {{
		let e: [u8; 0] = [];
		let a = <$t>::decode(&mut &e[..]).is_ok();
		let b = <$t>::decode(&mut Unk(&e[..])).is_ok();
		let c = parity_scale_codec::decode_from_bytes::<$t>(bytes::Bytes::new()).is_ok();
		assert!(a && b && c, "a zero-width value does not decode from an empty input of some kind");
	}}; }
	z!(()); z!(PhantomData<u32>); z!([u8; 0]); z!([(); 3]); z!(Compact<()>); z!(((), ()));
	// and non-empty types are rejected by all of them alike
	let e: [u8; 0] = [];
	assert!(u8::decode(&mut &e[..]).is_err() && parity_scale_codec::decode_from_bytes::<u8>(bytes::Bytes::new()).is_err());
}
#[kani::proof]
#[kani::unwind(8)]
pub fn c08q_bytes_zero_copy() {
	// [count=2][b0][b1][trailing u8]: (Bytes, u8) through the split_to path and cursor arithmetic
	let b: [u8; 3] = kani::any();
	let v = alloc::vec![2 << 2, b[0], b[1], b[2]];
	let r1 = parity_scale_codec::decode_from_bytes::<(bytes::Bytes, u8)>(bytes::Bytes::from(v));
	match &r1 {
		Ok((x, t)) => assert!(x.len() == 2 && x[0] == b[0] && x[1] == b[1] && *t == b[2], "zero-copy Bytes decode differs from the data"),
		Err(_) => assert!(false, "zero-copy Bytes decode failed on valid input"),
	}
	// the same through a slice (copying path of Bytes::decode)
	let raw = [2 << 2, b[0], b[1], b[2]];
	let mut s = &raw[..];
	let r0 = <(bytes::Bytes, u8)>::decode(&mut s);
	match (&r0, &r1) { (Ok(a), Ok(c)) => assert!(a.0.len() == c.0.len() && a.0[1] == c.0[1] && a.1 == c.1 && s.is_empty()), _ => assert!(false) }
	core::mem::forget((r0, r1));
}
#[kani::proof]
#[kani::unwind(8)]
pub fn c08q_bytes_count_exceeds_data() {
	let b: [u8; 2] = kani::any();
	let v = alloc::vec![3 << 2, b[0], b[1]];
	let r1 = parity_scale_codec::decode_from_bytes::<bytes::Bytes>(bytes::Bytes::from(v));
	assert!(r1.is_err(), "shared buffer: a count beyond the data was accepted");
	let v = alloc::vec![9u8, 2 << 2, b[0], b[1]];
	let r2 = parity_scale_codec::decode_from_bytes::<(u8, bytes::Bytes)>(bytes::Bytes::from(v));
	match &r2 { Ok((n, x)) => assert!(*n == 9 && x.len() == 2 && x[0] == b[0] && x[1] == b[1], "cursor position arithmetic wrong after a preceding value"), Err(_) => assert!(false) }
	core::mem::forget((r1, r2));
}

// ---- std only: IoReader over a Cursor-like reader and over a reader delivering short chunks
#[cfg(feature = "cfg_std")]
pub mod ioreader {
	use super::*;
	use parity_scale_codec::IoReader;
	pub use crate::gen::iord::*;
	/// zero-length reads (empty arrays) through a reader: must succeed like on a slice, at any chunk size and at end of input
	#[kani::proof]
	#[kani::unwind(8)]
	pub fn c08q_ioreader_zero_length_reads() {
		let bytes: [u8; 2] = kani::any();
		let chunk: usize = kani::any();
		kani::assume(chunk >= 1 && chunk <= 2);
		let mut s = &bytes[..];
		let r0 = <(u8, [u8; 0], u8, [u32; 0])>::decode(&mut s);
		let mut rd = IoReader(Short { data: &bytes[..], chunk });
		let r1 = <(u8, [u8; 0], u8, [u32; 0])>::decode(&mut rd);
		assert!(r0.is_ok() && r1.is_ok(), "a zero-length read through IoReader failed where the slice succeeds");
		let mut empty = IoReader(Short { data: &bytes[..0], chunk });
		assert!(<[u8; 0]>::decode(&mut empty).is_ok() && <[u16; 0]>::decode(&mut &bytes[..0]).is_ok());
		core::mem::forget(r1);
	}
	#[kani::proof] #[kani::unwind(14)] pub fn c08t_ioreader_tuple() { h_ioreader::<(u8, Option<u16>), 4>() }
	#[kani::proof] #[kani::unwind(14)] pub fn c08q_ioreader_opt_u16() { h_ioreader::<Option<u16>, 4>() }
	#[kani::proof] #[kani::unwind(14)] pub fn c08q_ioreader_arr_u16() { h_ioreader::<[u16; 2], 5>() }
	#[kani::proof] #[kani::unwind(14)] pub fn c08q_ioreader_arr_u8() { h_ioreader::<[u8; 4], 5>() }
	#[kani::proof] #[kani::unwind(14)] pub fn c08t_ioreader_u32() { h_ioreader::<u32, 4>() }
	#[kani::proof] #[kani::unwind(14)] pub fn c08t_ioreader_arr() { h_ioreader::<[Option<bool>; 2], 4>() }
}

/// negative twin: "unknown-length input reads nothing on failure" must FAIL (it may consume before failing)
#[kani::proof]
#[kani::unwind(6)]
pub fn c08n_twin_no_consumption_on_failure() {
	let bytes: [u8; 2] = kani::any();
	let mut u = Unk(&bytes[..]);
	let r = <(u8, u16)>::decode(&mut u);
	assert!(r.is_ok() || u.0.len() == 2);
}

/// the library's wrapper inputs (counting, memory-limited, depth-limited) are TRANSPARENT at the level of the Input hooks: decoding
/// through any of them shows the wrapped input exactly the same reads, the same allocation announcements and the same
/// descend/ascend sequence as decoding on it directly -- so every guarantee stated for one input kind carries over to stacks
pub fn h_wrappers_forward_hooks<T: DecodeWithMemTracking, const L: usize>(c: Option<u32>) {
	let bytes: [u8; L] = kani::any();
	let len: usize = kani::any();
	kani::assume(len <= L);
	macro_rules! mk { () => { match c { Some(c) => HookLog::new(Pre::count32(c, &bytes[..len])), None => HookLog::new(Pre::raw([0; 5], 0, &bytes[..len])) } }; }
	let mut h0 = mk!();
	let r0 = T::decode(&mut h0);
	let mut h1 = mk!();
	let mut ci = CountedInput::new(&mut h1);
	let r1 = T::decode(&mut ci);
	let counted = ci.count();
	let mut h2 = mk!();
	let mut mi = MemTrackingInput::new(&mut h2, usize::MAX);
	let r2 = T::decode(&mut mi);
	let tracked = mi.used_mem();
	let mut h3 = mk!();
	let r3 = T::decode_with_depth_limit(u32::MAX - 1, &mut h3);
	macro_rules! same_log { ($h:ident, $r:ident, $what:literal) => {
		assert!($r.is_ok() == r0.is_ok(), concat!($what, ": success differs from decoding on the wrapped input directly"));
		assert!($h.reads == h0.reads && $h.inner.rest.len() == h0.inner.rest.len(), concat!($what, ": the wrapped input saw other reads"));
		assert!($h.used == h0.used && $h.calls == h0.calls, concat!($what, ": allocation announcements were not forwarded unchanged"));
		assert!($h.max_depth == h0.max_depth && $h.depth == h0.depth && $h.unbalanced == h0.unbalanced, concat!($what, ": descend/ascend were not forwarded unchanged"));
	}; }
	same_log!(h1, r1, "CountedInput");
	same_log!(h2, r2, "MemTrackingInput");
	same_log!(h3, r3, "decode_with_depth_limit");
	assert!(counted == (len - h1.inner.rest.len() + h1.inner.pp) as u64, "CountedInput: count differs from the bytes delivered");
	assert!(tracked == h2.used, "MemTrackingInput: used_mem differs from the announcements it forwarded");
	if r0.is_ok() { assert!(h0.depth == 0 && !h0.unbalanced, "descend/ascend unbalanced after a successful decode"); }
	kani::cover!(r0.is_ok() && h0.calls > 0 && h0.max_depth > 0, "info: accepted with announcements and nesting");
	kani::cover!(r0.is_ok(), "reach: accepted");
	kani::cover!(r0.is_err() && h0.reads > 1, "info: rejected after some reads");
	core::mem::forget((r0, r1, r2, r3));
}
#[kani::proof] #[kani::unwind(8)] pub fn c08q_wrappers_box_opt() { h_wrappers_forward_hooks::<Box<Option<u16>>, 4>(None) }
#[kani::proof] #[kani::unwind(8)] pub fn c08q_wrappers_vec_box_2() { h_wrappers_forward_hooks::<Vec<Box<u8>>, 3>(Some(2)) }
#[kani::proof] #[kani::unwind(8)] pub fn c08q_wrappers_vec_u16_2() { h_wrappers_forward_hooks::<Vec<u16>, 5>(Some(2)) }
#[kani::proof] #[kani::unwind(8)] pub fn c08t_wrappers_list_2() { h_wrappers_forward_hooks::<alloc::collections::LinkedList<u8>, 3>(Some(2)) }
#[kani::proof] #[kani::unwind(8)] pub fn c08t_wrappers_tuple() { h_wrappers_forward_hooks::<(Box<u8>, Option<Box<bool>>), 4>(None) }
#[kani::proof] #[kani::unwind(8)] pub fn c08t_wrappers_string_2() { h_wrappers_forward_hooks::<alloc::string::String, 3>(Some(2)) }
