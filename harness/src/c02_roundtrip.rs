//! C02 decode(encode(v)) == v, consuming exactly the encoding, suffix unread.
use crate::{gen::*, io::*, spec::*, sym::Sym};
use alloc::{borrow::Cow, boxed::Box, collections::*, rc::Rc, string::String, sync::Arc, vec::Vec};
use core::{marker::PhantomData, num::*, ops::{Range, RangeInclusive}, time::Duration};
use parity_scale_codec::{Compact, Decode, Encode, OptionBool};

macro_rules! rt {
	($($name:ident: $t:ty, $c:expr, $n:literal, $s:literal, $u:literal;)*) => {$(
		#[kani::proof]
		#[kani::unwind($u)]
		pub fn $name() { h_rt::<$t, $n, $s>($c) }
	)*};
}
rt! {
	c02q_u8: u8, 0, 4, 2, 5; c02q_u16: u16, 0, 4, 2, 5; c02q_u32: u32, 0, 8, 2, 7; c02q_u64: u64, 0, 12, 2, 11; c02q_u128: u128, 0, 20, 2, 19;
	c02q_i8: i8, 0, 4, 2, 5; c02q_i16: i16, 0, 4, 2, 5; c02q_i32: i32, 0, 8, 2, 7; c02q_i64: i64, 0, 12, 2, 11; c02q_i128: i128, 0, 20, 2, 19;
	c02q_f32: f32, 0, 8, 2, 7; c02q_f64: f64, 0, 12, 2, 11; c02q_bool: bool, 0, 4, 2, 5; c02q_unit: (), 0, 4, 2, 5;
	c02q_compact_u8: Compact<u8>, 0, 20, 2, 19; c02q_compact_u16: Compact<u16>, 0, 20, 2, 19; c02q_compact_u32: Compact<u32>, 0, 20, 2, 19;
	c02q_compact_u64: Compact<u64>, 0, 20, 2, 19; c02q_compact_u128: Compact<u128>, 0, 20, 2, 19; c02q_compact_unit: Compact<()>, 0, 4, 2, 5;
	c02q_nz_u8: NonZeroU8, 0, 4, 2, 5; c02q_nz_u32: NonZeroU32, 0, 8, 2, 7; c02q_nz_i64: NonZeroI64, 0, 12, 2, 11; c02q_nz_u128: NonZeroU128, 0, 20, 2, 19;
	c02t_nz_u16: NonZeroU16, 0, 4, 2, 5; c02t_nz_u64: NonZeroU64, 0, 12, 2, 11; c02t_nz_i8: NonZeroI8, 0, 4, 2, 5; c02t_nz_i16: NonZeroI16, 0, 4, 2, 5;
	c02t_nz_i32: NonZeroI32, 0, 8, 2, 7; c02t_nz_i128: NonZeroI128, 0, 20, 2, 19;
	c02q_optionbool: OptionBool, 0, 4, 2, 5; c02q_duration: Duration, 0, 16, 2, 15; c02q_phantom: PhantomData<u8>, 0, 4, 2, 5;
	c02q_opt_u32: Option<u32>, 0, 8, 2, 8; c02q_opt_opt_bool: Option<Option<bool>>, 0, 8, 2, 6; c02q_res_u8_u16: Result<u8, u16>, 0, 8, 2, 6;
	c02q_tup2: (u8, u16), 0, 8, 2, 6; c02q_tup3: (u8, Compact<u16>, bool), 0, 20, 2, 19;
	c02q_tup18: (u8, u8, u8, u8, u8, u8, u8, u8, u8, u8, u8, u8, u8, u8, u8, u8, u8, u8), 0, 20, 2, 20;
	c02q_range: Range<u16>, 0, 8, 2, 7; c02q_range_incl: RangeInclusive<u16>, 0, 8, 2, 7;
	c02q_arr_u8_0: [u8; 0], 0, 4, 2, 5; c02q_arr_u8_4: [u8; 4], 0, 8, 2, 7; c02q_arr_u32_2: [u32; 2], 0, 12, 2, 11; c02q_arr_i128_1: [i128; 1], 0, 20, 2, 19;
	c02q_arr_f64_2: [f64; 2], 0, 20, 2, 19; c02q_arr_bool_3: [bool; 3], 0, 8, 2, 6; c02q_arr_opt_3: [Option<u8>; 3], 0, 8, 2, 9; c02q_arr_arr: [[u8; 2]; 2], 0, 8, 2, 7;
	c02q_arr_box: [Box<u8>; 2], 0, 4, 2, 5;
	c02q_vec_u8_0: Vec<u8>, 0, 8, 2, 6; c02q_vec_u8_3: Vec<u8>, 3, 8, 2, 7; c02q_vec_u16_3: Vec<u16>, 3, 12, 2, 10; c02q_vec_u32_2: Vec<u32>, 2, 12, 2, 12;
	c02q_vec_u64_1: Vec<u64>, 1, 12, 2, 12; c02q_vec_u128_1: Vec<u128>, 1, 20, 2, 20; c02q_vec_i16_2: Vec<i16>, 2, 8, 2, 8; c02q_vec_f32_2: Vec<f32>, 2, 12, 2, 12;
	c02q_vec_f64_1: Vec<f64>, 1, 12, 2, 12; c02q_vec_bool_3: Vec<bool>, 3, 8, 2, 7; c02q_vec_tup_2: Vec<(u8, u16)>, 2, 12, 2, 10;
	c02q_vec_vec_2: Vec<Vec<u8>>, 2, 8, 2, 8; c02q_vec_unit_3: Vec<()>, 3, 4, 2, 6; c02q_vec_string_1: Vec<String>, 1, 8, 2, 8;
	c02q_deque_u8_3: VecDeque<u8>, 3, 8, 2, 7; c02q_deque_u32_2: VecDeque<u32>, 2, 12, 2, 12; c02q_deque_bool_2: VecDeque<bool>, 2, 8, 2, 6;
	c02q_list_u8_2: LinkedList<u8>, 2, 8, 2, 6; c02q_heap_u8_2: BinaryHeap<u8>, 2, 8, 2, 8;
	
	c02q_string_0: String, 0, 4, 2, 5;
	c02q_box_u32: Box<u32>, 0, 8, 2, 7; c02q_rc_u32: Rc<u32>, 0, 8, 2, 7; c02q_arc_u32: Arc<u32>, 0, 8, 2, 7; c02q_box_vec: Box<Vec<u8>>, 2, 8, 2, 7;
	c02q_box_arr: Box<[Option<u8>; 2]>, 0, 8, 2, 7; c02q_opt_vec: Option<Vec<u16>>, 2, 8, 2, 9;
	c02t_vec_u8_1: Vec<u8>, 1, 8, 2, 6; c02t_vec_u32_3: Vec<u32>, 3, 16, 2, 16; c02t_vec_i8_3: Vec<i8>, 3, 8, 2, 7; c02t_vec_i32_2: Vec<i32>, 2, 12, 2, 12;
	c02t_vec_i64_1: Vec<i64>, 1, 12, 2, 12; c02t_vec_i128_1: Vec<i128>, 1, 20, 2, 20; 
	c02t_list_u8_3: LinkedList<u8>, 3, 8, 2, 7; c02t_heap_u8_3: BinaryHeap<u8>, 3, 8, 2, 8;
	c02t_rc_vec: Rc<Vec<bool>>, 2, 8, 2, 7; c02t_arc_arr: Arc<[u16; 2]>, 0, 8, 2, 7;
	c02t_u32_nosuffix: u32, 0, 8, 0, 7;
}

macro_rules! rtc {
	($($name:ident: $t:ty, $c:expr, $n:literal, $s:literal, $fixed:expr, $u:literal;)*) => {$(
		#[kani::proof]
		#[kani::unwind($u)]
		pub fn $name() { h_rt_cnt::<$t, $n, $s>($c, $fixed) }
	)*};
}
// containers whose element path needs the count concretely (rule R2)
rtc! {
	c02q_vec_opt_2: Vec<Option<u8>>, 2, 8, 2, None, 8; c02q_vec_bool_2_c: Vec<bool>, 2, 8, 2, None, 7; c02q_vec_tup_2_c: Vec<(u8, bool)>, 2, 8, 2, None, 8;
	c02q_list_u8_2_c: LinkedList<u8>, 2, 8, 2, None, 7; c02q_deque_opt_2: VecDeque<Option<u8>>, 2, 8, 2, None, 8;
	c02q_string_3: String, 3, 8, 0, Some(3), 8; c02q_map_1: BTreeMap<u8, u8>, 1, 8, 0, Some(2), 6; c02q_set_1: BTreeSet<u8>, 1, 8, 0, Some(1), 6;
	c02t_vec_opt_3: Vec<Option<u8>>, 3, 12, 2, None, 10; c02t_vec_res_2: Vec<Result<bool, u8>>, 2, 8, 2, None, 8; c02t_vec_arr_2: Vec<[bool; 2]>, 2, 8, 2, None, 8;
	c02t_string_2: String, 2, 8, 0, Some(2), 8; c02t_heap_2_c: BinaryHeap<u8>, 2, 8, 0, Some(2), 8;
	c02t_vec_optbool_3: Vec<OptionBool>, 3, 8, 2, None, 8;
}

/// Cow decodes to Owned; contents equal
#[kani::proof]
#[kani::unwind(8)]
pub fn c02q_cow() {
	let s = String::sym(2);
	let mut b = Buf::<8>::new();
	Cow::Borrowed(s.as_str()).encode_to(&mut b);
	assert!(b.n == 3 && b.d[0] == 8);
	let mut inp = Pre::count(2, &b.d[1..3]);
	match Cow::<str>::decode(&mut inp) {
		Ok(c) => { assert!(same_slice(c.as_bytes(), s.as_bytes()) && inp.rest.is_empty()); core::mem::forget(c); },
		Err(_) => { assert!(false, "Cow<str> round trip failed"); },
	}
	let v = Vec::<u16>::sym(2);
	let mut b = Buf::<8>::new();
	Cow::Borrowed(&v[..]).encode_to(&mut b);
	let mut inp = b.bytes();
	match Cow::<[u16]>::decode(&mut inp) {
		Ok(c) => { assert!(c.len() == 2 && c[0] == v[0] && c[1] == v[1] && inp.is_empty()); core::mem::forget(c); },
		Err(_) => { assert!(false, "Cow<[u16]> round trip failed"); },
	}
	core::mem::forget(s);
	core::mem::forget(v);
}

/// zero-sized elements: chunk_len = usize::MAX branch
#[kani::proof]
#[kani::unwind(8)]
pub fn c02q_vec_zst_5() {
	let v: Vec<()> = alloc::vec![(); 5];
	let mut b = Buf::<4>::new();
	v.encode_to(&mut b);
	assert!(b.n == 1 && b.d[0] == 20);
	let mut inp = b.bytes();
	match Vec::<()>::decode(&mut inp) {
		Ok(w) => { assert!(w.len() == 5 && inp.is_empty()); },
		Err(_) => { assert!(false); },
	}
	let v: Vec<PhantomData<u64>> = alloc::vec![PhantomData; 3];
	let mut b = Buf::<4>::new();
	v.encode_to(&mut b);
	let mut inp = b.bytes();
	assert!(Vec::<PhantomData<u64>>::decode(&mut inp).map(|w| w.len()) == Ok(3));
}

/// element types with an EMPTY encoding but a non-zero size (all fields skipped): a sequence of them
/// is just its count; must round-trip whatever follows (or nothing follows) in the input
#[cfg(feature = "ext")]
pub mod empty_encoding {
	use super::*;
	#[derive(Encode, Decode, Default, PartialEq)]
	pub struct AllSkipped { #[codec(skip)] pub a: u64, #[codec(skip)] pub b: u8 }
	#[derive(Encode, Decode, PartialEq)]
	pub struct UnitLike;
	/// zero-sized in memory, one byte on the wire
	#[derive(Encode, Decode, PartialEq, Clone, Copy)]
	pub enum OneV { #[codec(index = 5)] Only }
	#[kani::proof]
	#[kani::unwind(8)]
	pub fn c02q_zero_sized_elems_with_encoding() {
		let suffix: [u8; 2] = kani::any();
		// array
		let a = [OneV::Only; 3];
		let mut b = Buf::<8>::new(); a.encode_to(&mut b);
		let n = b.n; b.put(suffix[0]); b.put(suffix[1]);
		let mut inp = &b.d[..n + 2];
		let r = <[OneV; 3]>::decode(&mut inp);
		assert!(r.is_ok() && inp.len() == 2 && inp[0] == suffix[0], "array of zero-sized elements: decode must consume exactly the encoding");
		// boxed array and tuple following field
		let t = ([OneV::Only; 2], 0xabu8);
		let mut b = Buf::<8>::new(); t.encode_to(&mut b);
		let mut inp = b.bytes();
		match <(Box<[OneV; 2]>, u8)>::decode(&mut inp) { Ok((_, x)) => { assert!(x == 0xab && inp.is_empty(), "field after an array of zero-sized elements decoded from the wrong offset"); }, Err(_) => { assert!(false); } }
		// vector
		let v = alloc::vec![OneV::Only; 2];
		let mut b = Buf::<8>::new(); v.encode_to(&mut b);
		assert!(b.n == 3);
		let mut inp = Pre::count(2, &b.d[1..3]);
		let r = Vec::<OneV>::decode(&mut inp);
		assert!(r.map(|w| w.len()) == Ok(2) && inp.rest.is_empty());
	}
	#[kani::proof]
	#[kani::unwind(8)]
	pub fn c02q_vec_of_empty_encoding_elems() {
		let v: Vec<AllSkipped> = alloc::vec![AllSkipped { a: kani::any(), b: kani::any() }, AllSkipped { a: kani::any(), b: 3 }, AllSkipped::default()];
		let mut b = Buf::<4>::new();
		v.encode_to(&mut b);
		assert!(b.n == 1 && b.d[0] == 12, "a sequence of empty-encoding elements is just its count");
		// nothing follows
		let r = Vec::<AllSkipped>::decode(&mut Pre::count(3, &b.d[1..1]));
		match &r { Ok(w) => { assert!(w.len() == 3 && w[0].a == 0 && w[0].b == 0, "skipped fields must come back as Default"); }, Err(_) => { assert!(false, "round trip of a sequence of empty-encoding elements failed (no trailing bytes)"); } }
		// one byte follows and must be left unread
		let tail: [u8; 1] = kani::any();
		let mut inp = Pre::count(3, &tail[..]);
		let r2 = Vec::<AllSkipped>::decode(&mut inp);
		assert!(r2.is_ok() && inp.rest.len() == 1, "round trip of a sequence of empty-encoding elements failed / consumed the suffix");
		let r3 = alloc::collections::VecDeque::<UnitLike>::decode(&mut Pre::count(2, &b.d[1..1]));
		assert!(r3.map(|d| d.len()) == Ok(2));
		core::mem::forget((v, r, r2));
	}
}

/// negative twin: claiming the suffix is consumed must FAIL
#[kani::proof]
#[kani::unwind(6)]
pub fn c02n_twin_consumes_suffix() {
	let v: u16 = kani::any();
	let mut b = Buf::<4>::new();
	v.encode_to(&mut b);
	b.put(7);
	let mut inp = b.bytes();
	let _ = u16::decode(&mut inp);
	assert!(inp.is_empty());
}
