//! C13 Declared maximum/constant/fixed encoded lengths are true.
use crate::{gen::*, io::*, spec::*, sym::Sym};
use alloc::{boxed::Box, sync::Arc, vec::Vec};
use core::{marker::PhantomData, num::*, ops::{Range, RangeInclusive}, time::Duration};
use parity_scale_codec::{Compact, ConstEncodedLen, Decode, Encode, MaxEncodedLen, OptionBool};

pub fn h_max<T: Encode + MaxEncodedLen + Sym, const N: usize>(tight: bool) {
	let v = T::sym(0);
	let mut b = Buf::<N>::new();
	v.encode_to(&mut b);
	assert!(b.n <= T::max_encoded_len(), "a value encodes to more bytes than max_encoded_len()");
	assert!(v.encoded_size() == b.n, "encoded_size differs from the produced length");
	if tight { kani::cover!(b.n == T::max_encoded_len(), "info: the declared maximum is attained"); }
	kani::cover!(true, "reach: end of harness");
}
pub fn h_const<T: Encode + ConstEncodedLen + Sym, const N: usize>() {
	let v = T::sym(0);
	let mut b = Buf::<N>::new();
	v.encode_to(&mut b);
	assert!(b.n == T::max_encoded_len(), "a ConstEncodedLen type produced a length other than max_encoded_len()");
	kani::cover!(true, "reach: end of harness");
}
pub fn h_fixed<T: Encode + Decode + Sym, const N: usize>(expect_some: bool) {
	let v = T::sym(0);
	let mut b = Buf::<N>::new();
	v.encode_to(&mut b);
	match T::encoded_fixed_size() {
		Some(k) => assert!(b.n == k, "encoded_fixed_size() is Some(k) but a value encodes to another length"),
		None => assert!(!expect_some, "harness expectation: this type reports a fixed size"),
	}
	kani::cover!(true, "reach: end of harness");
}

macro_rules! mx { ($($name:ident: $t:ty, $n:literal, $tight:literal, $u:literal;)*) => {$(
	#[kani::proof] #[kani::unwind($u)] pub fn $name() { h_max::<$t, $n>($tight) } )*}; }
mx! {
	c13q_max_u8: u8, 4, true, 4; c13q_max_u16: u16, 4, true, 4; c13q_max_u32: u32, 8, true, 6; c13q_max_u64: u64, 12, true, 10; c13q_max_u128: u128, 20, true, 18;
	c13q_max_i8: i8, 4, true, 4; c13q_max_i16: i16, 4, true, 4; c13q_max_i32: i32, 8, true, 6; c13q_max_i64: i64, 12, true, 10; c13q_max_i128: i128, 20, true, 18;
	c13q_max_bool: bool, 4, true, 4;
	c13q_max_nz_u8: NonZeroU8, 4, true, 4; c13q_max_nz_u16: NonZeroU16, 4, true, 4; c13q_max_nz_u32: NonZeroU32, 8, true, 6; c13q_max_nz_u64: NonZeroU64, 12, true, 10; c13q_max_nz_u128: NonZeroU128, 20, true, 18;
	c13q_max_nz_i8: NonZeroI8, 4, true, 4; c13q_max_nz_i16: NonZeroI16, 4, true, 4; c13q_max_nz_i32: NonZeroI32, 8, true, 6; c13q_max_nz_i64: NonZeroI64, 12, true, 10; c13q_max_nz_i128: NonZeroI128, 20, true, 18;
	c13q_max_compact_unit: Compact<()>, 4, true, 4; c13q_max_compact_u8: Compact<u8>, 20, true, 19; c13q_max_compact_u16: Compact<u16>, 20, true, 19;
	c13q_max_compact_u32: Compact<u32>, 20, true, 19; c13q_max_compact_u64: Compact<u64>, 20, true, 19; c13q_max_compact_u128: Compact<u128>, 20, true, 19;
	c13q_max_tup1: (u16,), 4, true, 4; c13q_max_tup2: (u8, Compact<u32>), 20, true, 19; c13q_max_tup3: (Option<u16>, bool, Compact<u8>), 20, true, 19;
	c13q_max_tup18: (u8, u8, u8, u8, u8, u8, u8, u8, u8, u8, u8, u8, u8, u8, u8, u8, u8, Option<u8>), 24, true, 20;
	c13q_max_arr_u32_2: [u32; 2], 12, true, 10; c13q_max_arr_opt_3: [Option<u8>; 3], 8, true, 8; c13q_max_arr_compact_2: [Compact<u16>; 2], 20, true, 19; c13q_max_arr_0: [u64; 0], 4, true, 4;
	c13q_max_box: Box<Compact<u32>>, 20, true, 19; c13q_max_arc: Arc<Option<u16>>, 8, true, 6;
	c13q_max_opt: Option<u32>, 8, true, 7; c13q_max_opt_opt: Option<Option<bool>>, 4, true, 5; c13q_max_res: Result<u8, u32>, 8, true, 7; c13q_max_res2: Result<Compact<u64>, bool>, 20, true, 19;
	c13q_max_phantom: PhantomData<u64>, 4, true, 4; c13q_max_duration: Duration, 16, true, 14; c13q_max_range: Range<u16>, 8, true, 6; c13q_max_range_incl: RangeInclusive<Compact<u32>>, 20, true, 19;
}
macro_rules! cel { ($($name:ident: $t:ty, $n:literal, $u:literal;)*) => {$(
	#[kani::proof] #[kani::unwind($u)] pub fn $name() { h_const::<$t, $n>() } )*}; }
cel! {
	c13q_cel_u8: u8, 4, 4; c13q_cel_u32: u32, 8, 6; c13q_cel_u128: u128, 20, 18; c13q_cel_i16: i16, 4, 4; c13q_cel_i64: i64, 12, 10; c13q_cel_bool: bool, 4, 4;
	c13q_cel_nz_u16: NonZeroU16, 4, 4; c13q_cel_nz_i128: NonZeroI128, 20, 18; c13q_cel_duration: Duration, 16, 14; c13q_cel_phantom: PhantomData<u8>, 4, 4;
	c13q_cel_box: Box<u32>, 8, 6; c13q_cel_range: Range<u32>, 12, 10; c13q_cel_range_incl: RangeInclusive<i16>, 8, 6;
	c13q_cel_tup: (u8, u16, bool), 8, 6; c13q_cel_arr: [u16; 3], 8, 8; c13q_cel_arr_nested: [[bool; 2]; 2], 8, 6; c13q_cel_arr_tup: [(u8, NonZeroU8); 2], 8, 6;
	c13t_cel_u16: u16, 4, 4; c13t_cel_u64: u64, 12, 10; c13t_cel_i8: i8, 4, 4; c13t_cel_i32: i32, 8, 6; c13t_cel_i128: i128, 20, 18;
	c13t_cel_nz_u8: NonZeroU8, 4, 4; c13t_cel_nz_u32: NonZeroU32, 8, 6; c13t_cel_nz_u64: NonZeroU64, 12, 10; c13t_cel_nz_u128: NonZeroU128, 20, 18;
	c13t_cel_nz_i8: NonZeroI8, 4, 4; c13t_cel_nz_i16: NonZeroI16, 4, 4; c13t_cel_nz_i32: NonZeroI32, 8, 6; c13t_cel_nz_i64: NonZeroI64, 12, 10;
	c13t_cel_tup18: (u8, u8, u8, u8, u8, u8, u8, u8, u8, u8, u8, u8, u8, u8, u8, u8, u8, u16), 24, 21; c13t_cel_box_arr: Box<[u32; 2]>, 12, 10;
}
macro_rules! fx { ($($name:ident: $t:ty, $n:literal, $some:literal, $u:literal;)*) => {$(
	#[kani::proof] #[kani::unwind($u)] pub fn $name() { h_fixed::<$t, $n>($some) } )*}; }
fx! {
	c13q_fix_u16: u16, 4, true, 4; c13q_fix_u32: u32, 8, true, 6; c13q_fix_u64: u64, 12, true, 10; c13q_fix_u128: u128, 20, true, 18;
	c13q_fix_i16: i16, 4, true, 4; c13q_fix_i32: i32, 8, true, 6; c13q_fix_i64: i64, 12, true, 10; c13q_fix_i128: i128, 20, true, 18;
	c13q_fix_f32: f32, 8, true, 6; c13q_fix_f64: f64, 12, true, 10; c13q_fix_bool: bool, 4, true, 4;
	c13q_fix_arr_u32_2: [u32; 2], 12, true, 10; c13q_fix_arr_bool_3: [bool; 3], 4, true, 5; c13q_fix_arr_nested: [[u16; 2]; 2], 12, true, 10; c13q_fix_arr_f32_2: [f32; 2], 12, true, 10;
	c13q_fix_arr_0: [u32; 0], 4, true, 4;
	c13q_fix_u8_none: u8, 4, false, 4; c13q_fix_opt_none: Option<u8>, 4, false, 4; c13q_fix_arr_opt_none: [Option<u8>; 2], 8, false, 6; c13q_fix_compact_none: Compact<u32>, 20, false, 19;
	c13q_fix_tup_none: (u8, u16), 4, false, 5; c13q_fix_arr_u8_none: [u8; 4], 8, false, 6;
	// types that do NOT report a fixed size today: if one ever does, the size must be its encoded length (not its memory size)
	c13q_fix_arr_duration: [core::time::Duration; 2], 28, false, 30; c13q_fix_box_u32: Box<u32>, 8, false, 6;
	c13q_fix_res_u32_u16: Result<u32, u16>, 8, false, 7; c13q_fix_arr_res: [Result<u64, bool>; 2], 20, false, 22; c13q_fix_opt_u32: Option<u32>, 8, false, 7; c13q_fix_res_same: Result<u16, u16>, 4, false, 5;
	c13q_fix_tup_fixed: (u32, u16), 8, false, 8; c13q_fix_arr_tup: [(u16, bool); 2], 8, false, 10; c13q_fix_rc_u16: alloc::rc::Rc<u16>, 4, false, 4; c13q_fix_vec_u16: Vec<u16>, 8, false, 8;
}

/// "every type MARKED ConstEncodedLen encodes to exactly max_encoded_len()" must also hold for types that should not carry
/// the marker at all: probe the marker (inherent-method-over-trait-method resolution) and, if it is there, hold the type to it.
pub struct Probe<T>(pub core::marker::PhantomData<T>);
impl<T: ConstEncodedLen> Probe<T> { pub fn is_marked(&self) -> bool { true } }
pub trait NotMarked { fn is_marked(&self) -> bool { false } }
impl<T> NotMarked for Probe<T> {}
macro_rules! cel_probe {
	($($name:ident: $t:ty, $n:literal, $u:literal;)*) => {$(
		#[kani::proof] #[kani::unwind($u)]
		pub fn $name() {
			let marked = Probe::<$t>(core::marker::PhantomData).is_marked();
			let v = <$t>::sym(0);
			let mut b = Buf::<$n>::new();
			v.encode_to(&mut b);
			if marked { assert!(b.n == <$t as MaxEncodedLen>::max_encoded_len(), "a type carrying the ConstEncodedLen marker has values of different encoded lengths"); }
			kani::cover!(true, "reach: end of harness");
		}
	)*};
}
cel_probe! {
	c13q_celprobe_opt: Option<u8>, 4, 4; c13q_celprobe_arr_opt: [Option<u8>; 2], 8, 6; c13q_celprobe_arr_compact: [Compact<u32>; 2], 20, 19; c13q_celprobe_res: Result<u8, u32>, 8, 7;
	c13q_celprobe_compact: Compact<u16>, 20, 19; c13q_celprobe_tup: (u8, Option<u16>), 8, 6; c13q_celprobe_box_opt: Box<Option<u32>>, 8, 7; c13q_celprobe_range_compact: Range<Compact<u8>>, 20, 19;
	c13q_celprobe_nested: [[Option<bool>; 2]; 1], 8, 6; c13q_celprobe_u32: u32, 8, 6;
}
fx! { c13q_fix_duration: Duration, 16, false, 14; c13q_fix_optionbool: OptionBool, 4, false, 4; c13q_fix_nz: NonZeroU32, 8, false, 6; c13q_fix_unit: (), 4, false, 4; c13q_fix_range: Range<u16>, 8, false, 6; }

/// a user type with a hand-written codec whose wire size (5) differs from its in-memory size (8): arrays of it must report
/// N x the ELEMENT's fixed encoded size
#[derive(Clone, Copy)]
pub struct Rec { pub a: u8, pub b: u32 }
impl Encode for Rec { fn encode_to<W: parity_scale_codec::Output + ?Sized>(&self, d: &mut W) { self.a.encode_to(d); self.b.encode_to(d); } }
impl Decode for Rec {
	fn decode<I: parity_scale_codec::Input>(i: &mut I) -> Result<Self, parity_scale_codec::Error> { Ok(Rec { a: u8::decode(i)?, b: u32::decode(i)? }) }
	fn encoded_fixed_size() -> Option<usize> { Some(5) }
}
impl Sym for Rec { fn sym(_c: usize) -> Self { Rec { a: kani::any(), b: kani::any() } } }
fx! { c13q_fix_user_rec: Rec, 8, true, 8; c13q_fix_arr_user_rec: [Rec; 3], 16, true, 18; c13q_fix_arr_arr_user_rec: [[Rec; 2]; 1], 12, true, 14; }

/// negative twin: "Compact<u32> never exceeds 4 bytes" must FAIL
#[kani::proof]
#[kani::unwind(19)]
pub fn c13n_twin_compact_le_4() {
	let v: u32 = kani::any();
	let mut b = Buf::<20>::new();
	Compact(v).encode_to(&mut b);
	assert!(b.n <= 4);
}
