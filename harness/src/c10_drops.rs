//! C10 Failed decodes release everything exactly once.
//! Ledger element `Tr`: `decode` reads one byte and fails when the global construction counter
//! equals the symbolic FAIL_AT (a "malformed element"), else records BUILT[id]; `Drop` asserts
//! "built exactly once, not yet dropped". CBMC independently checks double free, use of a dead
//! object and dealloc-layout mismatch on every pointer operation of the real decode paths.
//! Outside (engine limit): a *panicking* element decoder -- Kani models panic as abort.
use crate::{gen::*, io::*, spec::*};
use alloc::{boxed::Box, collections::*, rc::Rc, sync::Arc, vec::Vec};
use parity_scale_codec::{Decode, DecodeLimit, DecodeWithMemLimit, DecodeWithMemTracking, Encode, Error, Input};

pub const MAXID: usize = 8;
pub static mut BUILT: [u8; MAXID] = [0; MAXID];
pub static mut DROPPED: [u8; MAXID] = [0; MAXID];
pub static mut NEXT: usize = 0;
pub static mut FAIL_AT: usize = 99;

pub struct Tr(pub usize, pub u8);
impl Decode for Tr {
	fn decode<I: Input>(i: &mut I) -> Result<Self, Error> {
		let b = i.read_byte()?;
		unsafe {
			if NEXT == FAIL_AT { return Err("malformed element".into()) }
			let id = NEXT;
			assert!(id < MAXID);
			NEXT += 1;
			BUILT[id] += 1;
			Ok(Tr(id, b))
		}
	}
}
impl DecodeWithMemTracking for Tr {}
impl Drop for Tr {
	fn drop(&mut self) {
		unsafe {
			assert!(self.0 < MAXID && BUILT[self.0] == 1, "dropping an element that was never (or twice) constructed");
			assert!(DROPPED[self.0] == 0, "element dropped twice");
			DROPPED[self.0] += 1;
		}
	}
}
impl PartialEq for Tr { fn eq(&self, o: &Self) -> bool { self.0 == o.0 } }
impl Eq for Tr {}
impl PartialOrd for Tr { fn partial_cmp(&self, o: &Self) -> Option<core::cmp::Ordering> { Some(self.cmp(o)) } }
impl Ord for Tr { fn cmp(&self, o: &Self) -> core::cmp::Ordering { self.0.cmp(&o.0) } }

/// after everything has been dropped: exactly the first `n` ids were built, each dropped once
fn ledger_balanced(n: usize) {
	// loop-free (MAXID = 8) so that harness unwind bounds need not cover it
	macro_rules! chk { ($($i:literal)*) => { $( unsafe {
		assert!(BUILT[$i] == DROPPED[$i], "leak or double drop: constructed and dropped counts differ");
		assert!(BUILT[$i] == ($i < n) as u8, "number of constructed elements differs from the failure position");
	} )* } }
	chk!(0 1 2 3 4 5 6 7);
}
fn min(a: usize, b: usize) -> usize { if a < b { a } else { b } }

/// containers of N one-byte elements decoded from a symbolically truncated input with a symbolic
/// failing element: Ok iff nothing fails; afterwards everything built has been dropped exactly once.
fn h_drop<C: Decode, const N: usize>(count_prefix: Option<u32>, check: impl FnOnce(&C)) {
	let bytes: [u8; N] = kani::any();
	let len: usize = kani::any();
	kani::assume(len <= N);
	let f: usize = kani::any();
	kani::assume(f <= N);
	unsafe { FAIL_AT = f; }
	let r = match count_prefix {
		Some(c) => C::decode(&mut Pre::count32(c, &bytes[..len])),
		None => C::decode(&mut &bytes[..len]),
	};
	assert!(r.is_ok() == (len == N && f >= N), "decode must fail iff the input is short or an element is malformed");
	if let Ok(v) = &r { check(v); }
	kani::cover!(r.is_ok(), "reach: success");
	kani::cover!(r.is_err() && f < len && f > 0, "info: malformed element after some were built");
	kani::cover!(r.is_err() && len < N && len > 0 && f >= len, "info: input exhausted after some were built");
	drop(r);
	ledger_balanced(min(f, len));
}
fn ids_in_order<'a>(it: impl Iterator<Item = &'a Tr>, n: usize, bytes_ok: bool) {
	let mut k = 0;
	for t in it { assert!(t.0 == k, "successful decode handed over elements out of order / uninitialised"); k += 1; }
	assert!(k == n);
}

#[kani::proof] #[kani::unwind(7)] pub fn c10q_array_4() { h_drop::<[Tr; 4], 4>(None, |v| ids_in_order(v.iter(), 4, true)) }
#[kani::proof] #[kani::unwind(4)] pub fn c10q_array_1() { h_drop::<[Tr; 1], 1>(None, |v| ids_in_order(v.iter(), 1, true)) }
#[kani::proof] #[kani::unwind(6)] pub fn c10q_box_array_3() { h_drop::<Box<[Tr; 3]>, 3>(None, |v| ids_in_order(v.iter(), 3, true)) }
#[kani::proof] #[kani::unwind(4)] pub fn c10q_box_1() { h_drop::<Box<Tr>, 1>(None, |v| assert!(v.0 == 0)) }
#[kani::proof] #[kani::unwind(5)] pub fn c10q_rc_array_2() { h_drop::<Rc<[Tr; 2]>, 2>(None, |v| ids_in_order(v.iter(), 2, true)) }
#[kani::proof] #[kani::unwind(5)] pub fn c10q_arc_array_2() { h_drop::<Arc<[Tr; 2]>, 2>(None, |v| ids_in_order(v.iter(), 2, true)) }
#[kani::proof] #[kani::unwind(6)] pub fn c10q_vec_3() { h_drop::<Vec<Tr>, 3>(Some(3), |v| ids_in_order(v.iter(), 3, true)) }
#[kani::proof] #[kani::unwind(6)] pub fn c10q_vec_1() { h_drop::<Vec<Tr>, 1>(Some(1), |v| ids_in_order(v.iter(), 1, true)) }
#[kani::proof] #[kani::unwind(6)] pub fn c10q_deque_2() { h_drop::<VecDeque<Tr>, 2>(Some(2), |v| ids_in_order(v.iter(), 2, true)) }
#[kani::proof] #[kani::unwind(6)] pub fn c10q_tuple_3() { h_drop::<(Tr, Tr, Tr), 3>(None, |v| assert!(v.0 .0 == 0 && v.1 .0 == 1 && v.2 .0 == 2)) }
#[kani::proof] #[kani::unwind(6)] pub fn c10q_nested_array() { h_drop::<[[Tr; 2]; 2], 4>(None, |v| assert!(v[0][0].0 == 0 && v[0][1].0 == 1 && v[1][0].0 == 2 && v[1][1].0 == 3)) }
#[kani::proof] #[kani::unwind(7)] pub fn c10q_vec_of_arrays() { h_drop::<Vec<[Tr; 2]>, 4>(Some(2), |v| assert!(v.len() == 2 && v[1][1].0 == 3)) }
#[kani::proof] #[kani::unwind(6)] pub fn c10t_array_of_boxes() { h_drop::<[Box<Tr>; 3], 3>(None, |v| assert!(v[2].0 == 2)) }
#[kani::proof] #[kani::unwind(6)] pub fn c10t_box_box() { h_drop::<Box<Box<Tr>>, 1>(None, |v| assert!(v.0 == 0)) }
#[kani::proof] #[kani::unwind(7)] pub fn c10t_vec_2_of_box() { h_drop::<Vec<Box<Tr>>, 2>(Some(2), |v| assert!(v.len() == 2)) }
#[kani::proof] #[kani::unwind(6)] pub fn c10t_array_3() { h_drop::<[Tr; 3], 3>(None, |v| ids_in_order(v.iter(), 3, true)) }
#[kani::proof] #[kani::unwind(6)] pub fn c10t_box_nested_array() { h_drop::<Box<[[Tr; 2]; 1]>, 2>(None, |v| assert!(v[0][1].0 == 1)) }

/// the same ledger element, but REPORTING a fixed encoded size (user types may override `encoded_fixed_size`; containers pick
/// other code paths for such elements): a malformed element on a complete, known-length input must still release the prefix
pub struct TrF(pub Tr);
impl Decode for TrF {
	fn decode<I: Input>(i: &mut I) -> Result<Self, Error> { Tr::decode(i).map(TrF) }
	fn encoded_fixed_size() -> Option<usize> { Some(1) }
}
impl DecodeWithMemTracking for TrF {}
#[kani::proof] #[kani::unwind(6)] pub fn c10q_fixed_size_elem_array_3() { h_drop::<[TrF; 3], 3>(None, |v| assert!(v[0].0 .0 == 0 && v[2].0 .0 == 2)) }
#[kani::proof] #[kani::unwind(6)] pub fn c10q_fixed_size_elem_box_array_2() { h_drop::<Box<[TrF; 2]>, 2>(None, |v| assert!(v[1].0 .0 == 1)) }
#[kani::proof] #[kani::unwind(6)] pub fn c10q_fixed_size_elem_vec_3() { h_drop::<Vec<TrF>, 3>(Some(3), |v| assert!(v.len() == 3 && v[2].0 .0 == 2)) }
#[kani::proof] #[kani::unwind(6)] pub fn c10t_fixed_size_elem_nested() { h_drop::<[[TrF; 2]; 2], 4>(None, |v| assert!(v[1][1].0 .0 == 3)) }
#[kani::proof] #[kani::unwind(6)] pub fn c10t_fixed_size_elem_deque_2() { h_drop::<VecDeque<TrF>, 2>(Some(2), |v| assert!(v.len() == 2)) }

/// Option / Result carry a tag byte first
#[kani::proof]
#[kani::unwind(5)]
pub fn c10q_option_result() {
	let bytes: [u8; 2] = kani::any();
	let len: usize = kani::any();
	kani::assume(len <= 2);
	let f: usize = kani::any();
	kani::assume(f <= 1);
	unsafe { FAIL_AT = f; }
	let r = Option::<Tr>::decode(&mut &bytes[..len]);
	let built = match &r { Ok(Some(_)) => 1, _ => 0 };
	assert!(r.is_ok() == ((len >= 1 && bytes[0] == 0) || (len == 2 && bytes[0] == 1 && f >= 1)));
	drop(r);
	ledger_balanced(built);
	unsafe { NEXT = 0; BUILT = [0; MAXID]; DROPPED = [0; MAXID]; }
	let r = Result::<Tr, Tr>::decode(&mut &bytes[..len]);
	let built = r.is_ok() as usize;
	assert!(r.is_ok() == (len == 2 && bytes[0] <= 1 && f >= 1));
	drop(r);
	ledger_balanced(built);
}

// ---- derived struct / enum / repr(transparent) newtypes with ledger fields
#[derive(Decode)]
pub struct DS { pub a: Tr, pub b: Tr, #[codec(skip)] pub s: u8, pub c: Tr }
#[derive(Decode)]
pub enum DE { A(Tr, Tr), B { x: Tr }, C }
#[derive(Decode)]
#[repr(transparent)]
pub struct Wrap(pub Tr);
#[kani::proof] #[kani::unwind(6)] pub fn c10q_derived_struct() { h_drop::<DS, 3>(None, |v| assert!(v.a.0 == 0 && v.b.0 == 1 && v.c.0 == 2)) }
#[kani::proof] #[kani::unwind(6)] pub fn c10q_transparent_array() { h_drop::<[Wrap; 3], 3>(None, |v| assert!(v[0].0 .0 == 0 && v[2].0 .0 == 2)) }
#[kani::proof] #[kani::unwind(6)] pub fn c10q_transparent_box() { h_drop::<Box<Wrap>, 1>(None, |v| assert!(v.0 .0 == 0)) }
#[kani::proof] #[kani::unwind(6)] pub fn c10t_box_transparent_array() { h_drop::<Box<[Wrap; 2]>, 2>(None, |v| assert!(v[1].0 .0 == 1)) }
#[kani::proof]
#[kani::unwind(6)]
pub fn c10q_derived_enum() {
	let bytes: [u8; 3] = kani::any();
	let len: usize = kani::any();
	kani::assume(len <= 3);
	let f: usize = kani::any();
	kani::assume(f <= 2);
	unsafe { FAIL_AT = f; }
	let r = DE::decode(&mut &bytes[..len]);
	let built = unsafe { NEXT };
	match &r {
		Ok(DE::A(a, b)) => assert!(bytes[0] == 0 && len == 3 && f >= 2 && a.0 == 0 && b.0 == 1),
		Ok(DE::B { x }) => assert!(bytes[0] == 1 && len >= 2 && f >= 1 && x.0 == 0),
		Ok(DE::C) => assert!(bytes[0] == 2 && len >= 1),
		Err(_) => {},
	}
	drop(r);
	ledger_balanced(built);
}

// ---- from_iter containers: failing index and length concrete and enumerated (rule R1).
// BTreeMap / BTreeSet with ledger elements were tried (1-2 entries, every length): CBMC runs out of memory (12 GB) or time
// (600 s) in std's bulk-build + sort with a droppable element type: outside the bound. LinkedList shares the from_iter path.
fn h_drop_fixed<C: Decode, const N: usize, const LEN: usize>(c: u32, f: usize, per_elem: usize) {
	let bytes: [u8; LEN] = kani::any();
	unsafe { FAIL_AT = f; }
	let r = C::decode(&mut Pre::count32(c, &bytes[..]));
	let complete = LEN / per_elem;
	assert!(r.is_ok() == (LEN == N * per_elem && f >= N), "decode must fail iff the input is short or an element is malformed");
	drop(r);
	ledger_balanced(min(f, complete));
}
#[kani::proof] #[kani::unwind(6)] pub fn c10q_list_2_ok() { h_drop_fixed::<LinkedList<Tr>, 2, 2>(2, 9, 1) }
#[kani::proof] #[kani::unwind(6)] pub fn c10q_list_2_fail1() { h_drop_fixed::<LinkedList<Tr>, 2, 2>(2, 1, 1) }
#[kani::proof] #[kani::unwind(6)] pub fn c10q_list_2_short() { h_drop_fixed::<LinkedList<Tr>, 2, 1>(2, 9, 1) }
#[kani::proof] #[kani::unwind(6)] pub fn c10t_list_2_fail0() { h_drop_fixed::<LinkedList<Tr>, 2, 2>(2, 0, 1) }

// ---- limit errors as the failure kind: symbolic depth / memory limit makes every allocation the failing one
#[kani::proof]
#[kani::unwind(6)]
pub fn c10q_limit_errors() {
	let bytes: [u8; 3] = kani::any();
	let dlim: u32 = kani::any();
	kani::assume(dlim <= 3);
	unsafe { FAIL_AT = 99; }
	let r = <[Box<Tr>; 3]>::decode_with_depth_limit(dlim, &mut &bytes[..]);
	assert!(r.is_ok() == (dlim >= 1));
	let built = unsafe { NEXT };
	drop(r);
	ledger_balanced(built);
	unsafe { NEXT = 0; BUILT = [0; MAXID]; DROPPED = [0; MAXID]; }
	let mlim: usize = kani::any();
	let sz = core::mem::size_of::<Tr>();
	let r = <[Box<Tr>; 3]>::decode_with_mem_limit(&mut &bytes[..], mlim);
	assert!(r.is_ok() == (mlim > 3 * sz), "mem limit: three boxes announce 3 x size");
	let built = unsafe { NEXT };
	assert!(r.is_ok() || built == min(2, (mlim.saturating_sub(1)) / sz), "elements built before the limit error");
	drop(r);
	ledger_balanced(built);
}
#[kani::proof]
#[kani::unwind(6)]
pub fn c10t_limit_errors_vec() {
	let bytes: [u8; 2] = kani::any();
	unsafe { FAIL_AT = 99; }
	let mlim: usize = kani::any();
	let r = Vec::<Box<Tr>>::decode_with_mem_limit(&mut Pre::count(2, &bytes[..]), mlim);
	let built = unsafe { NEXT };
	drop(r);
	ledger_balanced(built);
}

/// bulk primitive path (`set_len` before `read`): on Err nothing is handed out, on Ok every byte equals the input
#[kani::proof]
#[kani::unwind(8)]
pub fn c10q_bulk_set_len_before_read() {
	let bytes: [u8; 5] = kani::any();
	let len: usize = kani::any();
	kani::assume(len <= 5);
	let mut inp = Unk(&bytes[..len]);
	let r = parity_scale_codec::decode_vec_with_len::<u16, _>(&mut inp, 2);
	match &r {
		Ok(v) => assert!(len >= 4 && v.len() == 2 && v[0] == u16::from_le_bytes([bytes[0], bytes[1]]) && v[1] == u16::from_le_bytes([bytes[2], bytes[3]]), "bulk read handed out bytes that are not the input"),
		Err(_) => assert!(len < 4),
	}
	drop(r);
}

// ---- zero-sized element type WITH a Drop impl (the per-id ledger cannot work: no room for an id; use counters)
pub static mut Z_BUILT: usize = 0;
pub static mut Z_DROPPED: usize = 0;
pub struct Zt;
impl Decode for Zt {
	fn decode<I: Input>(i: &mut I) -> Result<Self, Error> {
		let _ = i.read_byte()?;
		unsafe {
			if Z_BUILT == FAIL_AT { return Err("malformed element".into()) }
			Z_BUILT += 1;
		}
		Ok(Zt)
	}
}
impl Drop for Zt { fn drop(&mut self) { unsafe { Z_DROPPED += 1; assert!(Z_DROPPED <= Z_BUILT, "zero-sized element dropped more often than built"); } } }
fn h_drop_zst<C: Decode, const N: usize>(count_prefix: Option<u32>) {
	let bytes: [u8; N] = kani::any();
	let len: usize = kani::any();
	kani::assume(len <= N);
	let f: usize = kani::any();
	kani::assume(f <= N);
	unsafe { FAIL_AT = f; }
	let r = match count_prefix { Some(c) => C::decode(&mut Pre::count32(c, &bytes[..len])), None => C::decode(&mut &bytes[..len]) };
	assert!(r.is_ok() == (len == N && f >= N));
	kani::cover!(r.is_err() && unsafe { Z_BUILT } > 0, "info: failure after some zero-sized elements were built");
	drop(r);
	unsafe {
		assert!(Z_BUILT == min(f, len), "number of constructed zero-sized elements differs from the failure position");
		assert!(Z_DROPPED == Z_BUILT, "zero-sized elements with a Drop impl were leaked or dropped twice");
	}
}
#[kani::proof] #[kani::unwind(6)] pub fn c10q_zst_array_3() { h_drop_zst::<[Zt; 3], 3>(None) }
#[kani::proof] #[kani::unwind(6)] pub fn c10q_zst_box_array_2() { h_drop_zst::<Box<[Zt; 2]>, 2>(None) }
#[kani::proof] #[kani::unwind(6)] pub fn c10q_zst_vec_3() { h_drop_zst::<Vec<Zt>, 3>(Some(3)) }
#[kani::proof] #[kani::unwind(6)] pub fn c10q_zst_box_1() { h_drop_zst::<Box<Zt>, 1>(None) }
#[kani::proof] #[kani::unwind(6)] pub fn c10q_zst_rc_arc() { h_drop_zst::<(Rc<Zt>, Arc<Zt>), 2>(None) }
#[kani::proof] #[kani::unwind(6)] pub fn c10t_zst_nested() { h_drop_zst::<[[Zt; 2]; 2], 4>(None) }
#[kani::proof] #[kani::unwind(6)] pub fn c10t_zst_tuple() { h_drop_zst::<(Zt, Zt), 2>(None) }

// ---- a refused allocation must not have been made (else its block is leaked): with a memory limit that refuses the
// very first announcement, decoding a boxed value must not request ANY heap memory (allocator stubs with allowance 0)
use crate::with_stubs;
with_stubs!(le_0, #[kani::unwind(6)] pub fn c10q_refused_box_not_allocated() {
	let bytes: [u8; 8] = kani::any();
	let r = Box::<u64>::decode_with_mem_limit(&mut &bytes[..], 1);
	assert!(r.is_err(), "limit 1 must refuse an 8-byte box");
	let r2 = alloc::rc::Rc::<[u8; 4]>::decode_with_mem_limit(&mut &bytes[..], 4);
	assert!(r2.is_err());
	let r3 = <[Box<u16>; 2]>::decode_with_mem_limit(&mut &bytes[..], 0);
	assert!(r3.is_err());
	core::mem::forget((r, r2, r3));
});
with_stubs!(le_64, #[kani::unwind(6)] pub fn c10q_refused_second_box() {
	// first box (8 bytes) admitted, second refused: exactly one 8-byte block may be requested, and it is freed on the error path
	let bytes: [u8; 16] = kani::any();
	let r = <(Box<u64>, Box<[u8; 100]>)>::decode_with_mem_limit(&mut &bytes[..], 16);
	assert!(r.is_err());
	drop(r);
});

/// negative twin: a ledger check that expects one element too many must FAIL
#[kani::proof]
#[kani::unwind(6)]
pub fn c10n_twin_expects_leak() {
	let bytes: [u8; 2] = kani::any();
	unsafe { FAIL_AT = 1; }
	let r = <[Tr; 2]>::decode(&mut &bytes[..]);
	drop(r);
	ledger_balanced(2);
}

// ---- heap blocks (the ledger sees element constructions and drops, not allocations): with counting allocator stubs, a decode
// that FAILS leaves no live heap block behind, and one that succeeds leaves none once its value is dropped
fn no_block_left<T: Decode, const L: usize>() {
	let bytes: [u8; L] = kani::any();
	let len: usize = kani::any();
	kani::assume(len <= L);
	let r = T::decode(&mut &bytes[..len]);
	if r.is_err() {
		assert!(crate::stubs::live::live() == 0, "a failed decode left a heap block allocated (leak)");
	}
	kani::cover!(r.is_err() && crate::stubs::live::ever() > 0, "reach: failed after allocating");
	kani::cover!(r.is_ok(), "reach: accepted");
	drop(r);
	assert!(crate::stubs::live::live() == 0, "dropping the decoded value does not release every heap block");
}
fn no_block_left_cnt<T: Decode, const L: usize>(c: u32) {
	let bytes: [u8; L] = kani::any();
	let len: usize = kani::any();
	kani::assume(len <= L);
	let r = T::decode(&mut Pre::count32(c, &bytes[..len]));
	if r.is_err() {
		assert!(crate::stubs::live::live() == 0, "a failed decode left a heap block allocated (leak)");
	}
	kani::cover!(r.is_err() && crate::stubs::live::ever() > 0, "reach: failed after allocating");
	drop(r);
	assert!(crate::stubs::live::live() == 0, "dropping the decoded value does not release every heap block");
}
crate::with_live_count!(#[kani::unwind(6)] pub fn c10q_blocks_vec_box_2() { no_block_left_cnt::<Vec<Box<bool>>, 2>(2) });
crate::with_live_count!(#[kani::unwind(6)] pub fn c10q_blocks_list_opt_2() { no_block_left_cnt::<alloc::collections::LinkedList<Option<bool>>, 3>(2) });
crate::with_live_count!(#[kani::unwind(6)] pub fn c10t_blocks_deque_rc_2() { no_block_left_cnt::<alloc::collections::VecDeque<alloc::rc::Rc<bool>>, 2>(2) });
crate::with_live_count!(#[kani::unwind(6)] pub fn c10t_blocks_vec_vec() { no_block_left_cnt::<Vec<(u8, Box<bool>)>, 4>(2) });
crate::with_live_count!(#[kani::unwind(6)] pub fn c10q_blocks_rc_arr() { no_block_left::<alloc::rc::Rc<[u16; 2]>, 4>() });
crate::with_live_count!(#[kani::unwind(6)] pub fn c10q_blocks_arc_opt() { no_block_left::<alloc::sync::Arc<(u8, Option<u16>)>, 4>() });
crate::with_live_count!(#[kani::unwind(6)] pub fn c10q_blocks_box_tuple() { no_block_left::<(Box<u8>, Box<Option<bool>>), 3>() });
crate::with_live_count!(#[kani::unwind(6)] pub fn c10q_blocks_rc_box() { no_block_left::<alloc::rc::Rc<Box<bool>>, 2>() });
crate::with_live_count!(#[kani::unwind(6)] pub fn c10t_blocks_arr_of_box() { no_block_left::<[Box<bool>; 3], 3>() });
crate::with_live_count!(#[kani::unwind(6)] pub fn c10t_blocks_arc_arc() { no_block_left::<alloc::sync::Arc<alloc::sync::Arc<bool>>, 2>() });
/// self-test: the counter sees a leak (must FAIL)
crate::with_live_count!(#[kani::unwind(4)] pub fn c10n_selftest_leak_seen() {
	let b = Box::new(7u32);
	core::mem::forget(b);
	assert!(crate::stubs::live::live() == 0);
});
/// self-test: allocate + drop is balanced under the counting stubs
crate::with_live_count!(#[kani::unwind(4)] pub fn c10q_selftest_balanced() {
	let b = Box::new(7u32);
	assert!(crate::stubs::live::live() == 1, "selftest: allocation not counted");
	drop(b);
	assert!(crate::stubs::live::live() == 0, "selftest: deallocation not counted");
	let r = alloc::rc::Rc::new(5u16);
	assert!(crate::stubs::live::live() == 1, "selftest: rc allocation not counted");
	drop(r);
	assert!(crate::stubs::live::live() == 0, "selftest: rc deallocation not counted");
});
