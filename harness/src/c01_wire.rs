//! C01 Encoded bytes conform to the SCALE wire format: real `encode_to` vs. the reference model,
//! one query per (type, shape), all contents symbolic.
use crate::{gen::*, io::*, spec::*, sym::Sym};
use alloc::{borrow::Cow, boxed::Box, collections::*, rc::Rc, string::String, sync::Arc, vec::Vec};
use core::{marker::PhantomData, num::*, ops::{Range, RangeInclusive}, time::Duration};
use parity_scale_codec::{Compact, Decode, Encode, OptionBool};

macro_rules! enc {
	($($name:ident: $t:ty, $c:expr, $n:literal, $u:literal;)*) => {$(
		#[kani::proof]
		#[kani::unwind($u)]
		pub fn $name() { h_enc::<$t, $n>($c) }
	)*};
}

// scalars, sums, products: full width
enc! {
	c01q_u8: u8, 0, 4, 4; c01q_u16: u16, 0, 4, 4; c01q_u32: u32, 0, 8, 6; c01q_u64: u64, 0, 12, 10; c01q_u128: u128, 0, 20, 18;
	c01q_i8: i8, 0, 4, 4; c01q_i16: i16, 0, 4, 4; c01q_i32: i32, 0, 8, 6; c01q_i64: i64, 0, 12, 10; c01q_i128: i128, 0, 20, 18;
	c01q_f32: f32, 0, 8, 6; c01q_f64: f64, 0, 12, 10; c01q_bool: bool, 0, 4, 4; c01q_unit: (), 0, 4, 4;
	c01q_compact_u8: Compact<u8>, 0, 20, 19; c01q_compact_u16: Compact<u16>, 0, 20, 19; c01q_compact_u32: Compact<u32>, 0, 20, 19;
	c01q_compact_u64: Compact<u64>, 0, 20, 19; c01q_compact_u128: Compact<u128>, 0, 20, 19; c01q_compact_unit: Compact<()>, 0, 4, 4;
	c01q_nz_u8: NonZeroU8, 0, 4, 4; c01q_nz_u16: NonZeroU16, 0, 4, 4; c01q_nz_u32: NonZeroU32, 0, 8, 6; c01q_nz_u64: NonZeroU64, 0, 12, 10; c01q_nz_u128: NonZeroU128, 0, 20, 18;
	c01q_nz_i8: NonZeroI8, 0, 4, 4; c01q_nz_i16: NonZeroI16, 0, 4, 4; c01q_nz_i32: NonZeroI32, 0, 8, 6; c01q_nz_i64: NonZeroI64, 0, 12, 10; c01q_nz_i128: NonZeroI128, 0, 20, 18;
	c01q_optionbool: OptionBool, 0, 4, 4; c01q_duration: Duration, 0, 16, 14; c01q_phantom: PhantomData<u8>, 0, 4, 4;
	c01q_opt_u32: Option<u32>, 0, 8, 7; c01q_opt_opt_bool: Option<Option<bool>>, 0, 4, 5; c01q_res_u8_u16: Result<u8, u16>, 0, 4, 5;
	c01q_res_opt: Result<Option<u16>, Compact<u32>>, 0, 20, 19;
	c01q_tup1: (u16,), 0, 4, 4; c01q_tup2: (u8, u16), 0, 4, 5; c01q_tup3: (u8, Compact<u16>, bool), 0, 20, 19; c01q_tup4: (u8, u16, u32, u64), 0, 20, 17;
	c01q_tup18: (u8, u8, u8, u8, u8, u8, u8, u8, u8, u8, u8, u8, u8, u8, u8, u8, u8, u8), 0, 20, 20;
	c01q_range: Range<u16>, 0, 8, 6; c01q_range_incl: RangeInclusive<u16>, 0, 8, 6;
	c01q_arr_u8_0: [u8; 0], 0, 4, 4; c01q_arr_u8_4: [u8; 4], 0, 8, 6; c01q_arr_u32_2: [u32; 2], 0, 12, 10; c01q_arr_i128_1: [i128; 1], 0, 20, 18;
	c01q_arr_f64_2: [f64; 2], 0, 20, 18; c01q_arr_bool_3: [bool; 3], 0, 4, 5; c01q_arr_opt_3: [Option<u8>; 3], 0, 8, 8; c01q_arr_arr: [[u8; 2]; 2], 0, 8, 6;
	c01t_arr_i16_3: [i16; 3], 0, 8, 8; c01t_arr_u64_2: [u64; 2], 0, 20, 18; c01t_arr_box: [Box<u8>; 2], 0, 4, 4;
}

// sequences: concrete count, symbolic contents
enc! {
	c01q_vec_u8_0: Vec<u8>, 0, 8, 6; c01q_vec_u8_1: Vec<u8>, 1, 8, 6; c01q_vec_u8_3: Vec<u8>, 3, 8, 6;
	c01q_vec_u16_3: Vec<u16>, 3, 12, 9; c01q_vec_u32_2: Vec<u32>, 2, 12, 11; c01q_vec_u64_2: Vec<u64>, 2, 20, 19; c01q_vec_u128_1: Vec<u128>, 1, 20, 19;
	c01q_vec_i8_3: Vec<i8>, 3, 8, 6; c01q_vec_i16_2: Vec<i16>, 2, 8, 7; c01q_vec_i32_2: Vec<i32>, 2, 12, 11; c01q_vec_i64_1: Vec<i64>, 1, 12, 11; c01q_vec_i128_1: Vec<i128>, 1, 20, 19;
	c01q_vec_f32_2: Vec<f32>, 2, 12, 11; c01q_vec_f64_1: Vec<f64>, 1, 12, 11;
	c01q_vec_bool_3: Vec<bool>, 3, 8, 6; c01q_vec_opt_3: Vec<Option<u8>>, 3, 8, 9; c01q_vec_tup_2: Vec<(u8, u16)>, 2, 8, 9;
	c01q_vec_vec_2: Vec<Vec<u8>>, 2, 8, 8; c01q_vec_unit_3: Vec<()>, 3, 4, 5; c01q_vec_string_2: Vec<String>, 2, 8, 8;
	c01q_deque_u8_3: VecDeque<u8>, 3, 8, 6; c01q_deque_u32_2: VecDeque<u32>, 2, 12, 11; c01q_deque_bool_3: VecDeque<bool>, 3, 8, 6;
	c01q_list_u8_3: LinkedList<u8>, 3, 8, 6; c01q_list_opt_2: LinkedList<Option<u16>>, 2, 8, 9;
	c01q_string_3: String, 3, 8, 6; c01q_string_0: String, 0, 4, 4;
	c01q_box_u32: Box<u32>, 0, 8, 6; c01q_rc_u32: Rc<u32>, 0, 8, 6; c01q_arc_u32: Arc<u32>, 0, 8, 6; c01q_box_vec: Box<Vec<u8>>, 2, 8, 6;
	c01q_opt_vec: Option<Vec<u16>>, 2, 8, 8;
	c01t_vec_u8_2: Vec<u8>, 2, 8, 6; c01t_vec_u32_3: Vec<u32>, 3, 16, 15; c01t_vec_u64_3: Vec<u64>, 3, 28, 27; c01t_vec_opt_2: Vec<Option<u8>>, 2, 8, 7;
	c01t_vec_vec_3: Vec<Vec<u8>>, 3, 12, 11; c01t_deque_u16_3: VecDeque<u16>, 3, 8, 9; c01t_list_u8_0: LinkedList<u8>, 0, 4, 4;
	c01t_rc_vec: Rc<Vec<bool>>, 2, 8, 6; c01t_arc_str: Arc<String>, 2, 8, 6; c01t_vec_compact_3: Vec<Compact<u32>>, 3, 20, 19;
	c01t_vec_res_2: Vec<Result<u8, bool>>, 2, 8, 7;
}

// maps / sets / heaps built through the public API with symbolic keys
enc! {
	c01q_map_0: BTreeMap<u8, u8>, 0, 4, 4; c01q_map_1: BTreeMap<u8, u8>, 1, 4, 5; c01t_map_2: BTreeMap<u8, u8>, 2, 8, 7;
	c01q_set_1: BTreeSet<u8>, 1, 4, 5; c01t_set_2: BTreeSet<u8>, 2, 4, 5; c01q_heap_2: BinaryHeap<u8>, 2, 4, 5;
	c01t_heap_3: BinaryHeap<u8>, 3, 4, 6;
}

/// map with three *concrete* distinct keys inserted out of order, symbolic values: sorted pairs
#[kani::proof]
#[kani::unwind(14)]
pub fn c01q_map_3_concrete_keys() {
	let v: [u16; 3] = kani::any();
	let mut m = BTreeMap::new();
	m.insert(5u8, v[0]);
	m.insert(1u8, v[1]);
	m.insert(9u8, v[2]);
	enc_matches_spec::<_, 12>(&m);
	let mut b = Buf::<12>::new();
	m.encode_to(&mut b);
	assert!(b.d[0] == 12 && b.d[1] == 1 && b.d[4] == 5 && b.d[7] == 9, "map entries not in key order");
	assert!(b.d[2] == (v[1] & 0xff) as u8 && b.d[3] == (v[1] >> 8) as u8);
	core::mem::forget(m);
}

/// unsized / borrowed forms: `str`, `[T]`, `&T`, `&mut T`, `Cow`
#[kani::proof]
#[kani::unwind(8)]
pub fn c01q_borrowed_forms() {
	let s = String::sym(3);
	let mut exp = Buf::<8>::new();
	s.spec_enc(&mut exp);
	let mut a = Buf::<8>::new();
	s.as_str().encode_to(&mut a);
	assert!(same_bytes(&a, &exp), "str encoding differs from the reference");
	let mut b = Buf::<8>::new();
	Cow::Borrowed(s.as_str()).encode_to(&mut b);
	assert!(same_bytes(&b, &exp), "Cow<str> encoding differs from the reference");
	let v = Vec::<u16>::sym(2);
	let mut exp = Buf::<8>::new();
	v.spec_enc(&mut exp);
	let mut c = Buf::<8>::new();
	v[..].encode_to(&mut c);
	assert!(same_bytes(&c, &exp), "[T] encoding differs from the reference");
	let mut d = Buf::<8>::new();
	(&&v).encode_to(&mut d);
	assert!(same_bytes(&d, &exp), "&&T encoding differs from the reference");
	let mut e = Buf::<8>::new();
	let cow: Cow<[u16]> = Cow::Owned(v.clone());
	cow.encode_to(&mut e);
	assert!(same_bytes(&e, &exp), "Cow<[T]> encoding differs from the reference");
	let mut x: u32 = kani::any();
	let mut exp = Buf::<8>::new();
	x.spec_enc(&mut exp);
	let mut f = Buf::<8>::new();
	(&mut x).encode_to(&mut f);
	assert!(same_bytes(&f, &exp), "&mut T encoding differs from the reference");
	core::mem::forget(s);
	core::mem::forget(v);
	core::mem::forget(cow);
}

/// count-prefix boundary 63 -> 64 (one-byte mode ends at 63) on every sequence encoder, symbolic contents
fn prefix_boundary<C: Encode + Spec, const N: usize>(v: &C) { enc_matches_spec::<C, N>(v) }
#[kani::proof]
#[kani::unwind(70)]
pub fn c01q_count_boundary_vec_u8() {
	let b63: [u8; 63] = kani::any();
	let b64: [u8; 64] = kani::any();
	let b65: [u8; 65] = kani::any();
	let (v63, v64, v65) = (b63.to_vec(), b64.to_vec(), b65.to_vec());
	prefix_boundary::<Vec<u8>, 72>(&v63);
	prefix_boundary::<Vec<u8>, 72>(&v64);
	prefix_boundary::<Vec<u8>, 72>(&v65);
	let mut r = Buf::<72>::new();
	v64[..].encode_to(&mut r);
	assert!(r.n == 66 && r.d[0] == 0x01 && r.d[1] == 0x01, "a 64-element slice must carry the two-byte count prefix 01 01");
	core::mem::forget((v63, v64, v65));
}
#[kani::proof]
#[kani::unwind(70)]
pub fn c01q_count_boundary_deque() {
	let b: [u8; 64] = kani::any();
	let d: VecDeque<u8> = VecDeque::from(b.to_vec());
	let mut r = Buf::<72>::new();
	d.encode_to(&mut r);
	assert!(r.n == 66 && r.d[0] == 0x01 && r.d[1] == 0x01, "a 64-element deque must carry the two-byte count prefix 01 01");
	let i: usize = kani::any();
	kani::assume(i < 64);
	assert!(r.d[2 + i] == b[i]);
	core::mem::forget(d);
}
#[kani::proof]
#[kani::unwind(70)]
pub fn c01q_count_boundary_str() {
	let mut r = Buf::<72>::new();
	let ascii = [b'a'; 64];
	// (unchecked: std's UTF-8 validator over 64 bytes alone does not finish in 400 s; the bytes are ASCII by construction)
	unsafe { core::str::from_utf8_unchecked(&ascii) }.encode_to(&mut r);
	assert!(r.n == 66 && r.d[0] == 0x01 && r.d[1] == 0x01, "a 64-byte str must carry the two-byte count prefix");
	let mut r = Buf::<72>::new();
	let ascii = [b'a'; 63];
	// (unchecked: std's UTF-8 validator over 64 bytes alone does not finish in 400 s; the bytes are ASCII by construction)
	unsafe { core::str::from_utf8_unchecked(&ascii) }.encode_to(&mut r);
	assert!(r.n == 64 && r.d[0] == 0xfc, "a 63-byte str must carry the one-byte count prefix");
}
#[kani::proof]
#[kani::unwind(70)]
pub fn c01t_count_boundary_elem_path() {
	let b: [bool; 64] = kani::any();
	let v: Vec<bool> = b.to_vec();
	prefix_boundary::<Vec<bool>, 72>(&v);
	let w: Vec<u16> = alloc::vec![7u16; 64];
	let mut r = Buf::<136>::new();
	w.encode_to(&mut r);
	assert!(r.n == 130 && r.d[0] == 0x01 && r.d[1] == 0x01);
	core::mem::forget((v, w));
}

/// element types that are zero-sized IN MEMORY but have a non-empty encoding (one-variant fieldless enum = its index byte)
#[cfg(feature = "ext")]
pub mod zst_with_encoding {
	use super::*;
	use parity_scale_codec::Decode;
	#[derive(Encode, Decode, Clone, Copy)]
	pub enum OneV { #[codec(index = 5)] Only }
	#[kani::proof]
	#[kani::unwind(8)]
	pub fn c01q_seq_of_zero_sized_elems_with_encoding() {
		let v = alloc::vec![OneV::Only; 3];
		let mut r = Buf::<8>::new(); v.encode_to(&mut r);
		assert!(r.n == 4 && r.d[0] == 12 && r.d[1] == 5 && r.d[2] == 5 && r.d[3] == 5, "Vec of zero-sized elements lost their (non-empty) encodings");
		let a = [OneV::Only; 2];
		let mut r = Buf::<8>::new(); a.encode_to(&mut r);
		assert!(r.n == 2 && r.d[0] == 5 && r.d[1] == 5, "array of zero-sized elements lost their encodings");
		let d: VecDeque<OneV> = v.iter().cloned().collect();
		let mut r = Buf::<8>::new(); d.encode_to(&mut r);
		assert!(r.n == 4 && r.d[3] == 5, "VecDeque of zero-sized elements lost their encodings");
		let mut r = Buf::<8>::new(); (v[..2]).encode_to(&mut r);
		assert!(r.n == 3 && r.d[0] == 8);
		let t = (7u8, [OneV::Only; 1], 9u8);
		let mut r = Buf::<8>::new(); t.encode_to(&mut r);
		assert!(r.n == 3 && r.d[0] == 7 && r.d[1] == 5 && r.d[2] == 9);
		core::mem::forget((v, d));
	}
}

/// unsized holders: Box<[T]>, Box<str>, Rc<str>, Arc<[u8]> are transparent too
#[kani::proof]
#[kani::unwind(10)]
pub fn c01q_unsized_holders() {
	let v = Vec::<u16>::sym(2);
	let mut exp = Buf::<8>::new();
	v.spec_enc(&mut exp);
	let b: Box<[u16]> = v.clone().into_boxed_slice();
	let mut r = Buf::<8>::new(); b.encode_to(&mut r);
	assert!(same_bytes(&r, &exp), "Box<[T]> is not transparent");
	let a: Arc<[u16]> = Arc::from(&v[..]);
	let mut r = Buf::<8>::new(); a.encode_to(&mut r);
	assert!(same_bytes(&r, &exp), "Arc<[T]> is not transparent");
	let s = String::sym(2);
	let mut exp = Buf::<8>::new();
	s.spec_enc(&mut exp);
	let bs: Box<str> = s.clone().into_boxed_str();
	let mut r = Buf::<8>::new(); bs.encode_to(&mut r);
	assert!(same_bytes(&r, &exp), "Box<str> is not transparent");
	let rs: Rc<str> = Rc::from(s.as_str());
	let mut r = Buf::<8>::new(); rs.encode_to(&mut r);
	assert!(same_bytes(&r, &exp), "Rc<str> is not transparent");
	core::mem::forget((v, b, a, s, bs, rs));
}
/// tuples of the arities between 4 and 18 (generated by the same macro, spot-checked at 5, 9 and 12)
#[kani::proof]
#[kani::unwind(16)]
pub fn c01q_tuples_mid_arity() {
	let x: [u8; 12] = kani::any();
	let y: u16 = kani::any();
	let t5 = (x[0], y, x[1], (x[2] & 1) == 1, x[3]);
	let mut r = Buf::<16>::new(); t5.encode_to(&mut r);
	assert!(r.n == 6 && r.d[0] == x[0] && r.d[1] == (y & 0xff) as u8 && r.d[2] == (y >> 8) as u8 && r.d[3] == x[1] && r.d[4] == (x[2] & 1) && r.d[5] == x[3], "5-tuple is not the concatenation of its fields in order");
	let t9 = (x[0], x[1], x[2], x[3], x[4], x[5], x[6], x[7], y);
	let mut r = Buf::<16>::new(); t9.encode_to(&mut r);
	assert!(r.n == 10 && r.d[7] == x[7] && r.d[8] == (y & 0xff) as u8 && r.d[0] == x[0] && r.d[4] == x[4], "9-tuple is not the concatenation of its fields in order");
	let t12 = (x[0], x[1], x[2], x[3], x[4], x[5], x[6], x[7], x[8], x[9], x[10], x[11]);
	let mut r = Buf::<16>::new(); t12.encode_to(&mut r);
	let i: usize = kani::any();
	kani::assume(i < 12);
	assert!(r.n == 12 && r.d[i] == x[i], "12-tuple is not the concatenation of its fields in order");
	let mut inp = r.bytes();
	match <(u8, u8, u8, u8, u8, u8, u8, u8, u8, u8, u8, u8)>::decode(&mut inp) { Ok(d) => { assert!(d.0 == x[0] && d.5 == x[5] && d.11 == x[11] && inp.is_empty()); }, Err(_) => { assert!(false); } }
}

/// negative twin: a wrong model (big-endian u16) must FAIL
#[kani::proof]
#[kani::unwind(4)]
pub fn c01n_twin_big_endian() {
	let v: u16 = kani::any();
	let mut real = Buf::<4>::new();
	v.encode_to(&mut real);
	assert!(real.d[0] == (v >> 8) as u8);
}

/// the largest representable element count, 2^32 - 1, gets the five-byte prefix 03 ff ff ff ff (a slice of that many unit values
/// costs no memory). Assert-and-cut: the sink checks the first five bytes and ends the path there -- iterating the 2^32-1
/// unit elements afterwards (which write nothing) is not executed.
pub struct CutAfterPrefix { d: [u8; 5], n: usize }
impl parity_scale_codec::Output for CutAfterPrefix {
	fn write(&mut self, b: &[u8]) {
		let mut i = 0;
		while i < b.len() {
			self.d[self.n] = b[i];
			self.n += 1;
			i += 1;
			if self.n == 5 {
				assert!(self.d[0] == 0x03 && self.d[1] == 0xff && self.d[2] == 0xff && self.d[3] == 0xff && self.d[4] == 0xff, "count 2^32-1: prefix is not 03 ff ff ff ff");
				kani::cover!(true, "reach: five prefix bytes written");
				kani::assume(false);
			}
		}
	}
}
#[kani::proof]
#[kani::unwind(7)]
pub fn c01q_count_u32_max_prefix() {
	static UNITS: [(); u32::MAX as usize] = [(); u32::MAX as usize];
	let s: &[()] = &UNITS[..];
	let mut o = CutAfterPrefix { d: [0; 5], n: 0 };
	s.encode_to(&mut o);
	assert!(false, "the sequence of 2^32-1 elements was encoded without a complete five-byte prefix");
}

/// sequences and arrays whose ELEMENTS are pointer-like wrappers around primitives (`&u32`, `Box<u16>`, `Rc<u8>`, `Arc<i8>`, `&f32`):
/// each element is the pointee's encoding -- never bytes of the wrapper itself (bulk paths are selected per element type)
#[kani::proof]
#[kani::unwind(14)]
pub fn c01q_seq_of_wrapped_primitives() {
	use alloc::{rc::Rc, sync::Arc, collections::VecDeque};
	let a: u32 = kani::any();
	let b: u32 = kani::any();
	let mut exp = Buf::<12>::new();
	exp.put(2 << 2); a.spec_enc(&mut exp); b.spec_enc(&mut exp);
	let refs: Vec<&u32> = alloc::vec![&a, &b];
	let mut r = Buf::<12>::new(); refs.encode_to(&mut r);
	assert!(same_bytes(&r, &exp), "Vec<&u32> does not encode as the sequence of the pointees");
	let sl: &[&u32] = &refs[..];
	let mut r = Buf::<12>::new(); sl.encode_to(&mut r);
	assert!(same_bytes(&r, &exp), "&[&u32] does not encode as the sequence of the pointees");
	let x: u16 = kani::any();
	let y: u16 = kani::any();
	let arr: [Box<u16>; 2] = [Box::new(x), Box::new(y)];
	let mut exp = Buf::<12>::new(); x.spec_enc(&mut exp); y.spec_enc(&mut exp);
	let mut r = Buf::<12>::new(); arr.encode_to(&mut r);
	assert!(same_bytes(&r, &exp), "[Box<u16>; 2] does not encode as the concatenation of the pointees");
	assert!(arr.using_encoded(|s| same_slice(s, exp.bytes())), "[Box<u16>; 2]: using_encoded differs");
	let p: u8 = kani::any();
	let q: i8 = kani::any();
	let mut d: VecDeque<Rc<u8>> = VecDeque::new(); d.push_back(Rc::new(p)); d.push_back(Rc::new(p));
	let mut exp = Buf::<12>::new(); exp.put(2 << 2); exp.put(p); exp.put(p);
	let mut r = Buf::<12>::new(); d.encode_to(&mut r);
	assert!(same_bytes(&r, &exp), "VecDeque<Rc<u8>> does not encode as the sequence of the pointees");
	let ar: [Arc<i8>; 1] = [Arc::new(q)];
	let mut r = Buf::<12>::new(); ar.encode_to(&mut r);
	assert!(r.n == 1 && r.d[0] == q as u8, "[Arc<i8>; 1] does not encode as the pointee");
	let f: f32 = kani::any();
	let fr: Vec<&f32> = alloc::vec![&f];
	let mut exp = Buf::<12>::new(); exp.put(1 << 2); f.spec_enc(&mut exp);
	let mut r = Buf::<12>::new(); fr.encode_to(&mut r);
	assert!(same_bytes(&r, &exp), "Vec<&f32> does not encode as the sequence of the pointees");
	core::mem::forget((refs, arr, d, ar, fr));
}
