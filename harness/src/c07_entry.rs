//! C07 All encoding entry points and bulk fast paths agree.
use crate::{gen::*, io::*, spec::*, sym::Sym};
use alloc::{boxed::Box, collections::*, rc::Rc, string::String, sync::Arc, vec::Vec};
use core::num::*;
use parity_scale_codec::{Compact, Decode, Encode, Error, Input, Output, OptionBool};

/// a sink reached through `&mut dyn Output`
fn through_dyn<T: Encode>(v: &T, out: &mut dyn Output) { v.encode_to(out) }

/// bytes via encode_to(Buf) = encode() = encode_to(Vec) = encode_to(dyn Output) = using_encoded; encoded_size = len
pub fn h_entry<T: Encode + Sym, const N: usize>(c: usize) {
	let v = T::sym(c);
	let mut a = Buf::<N>::new();
	v.encode_to(&mut a);
	let b = v.encode();
	assert!(same_slice(&b, a.bytes()), "encode() differs from encode_to");
	let mut cvec: Vec<u8> = Vec::with_capacity(N);
	v.encode_to(&mut cvec);
	assert!(same_slice(&cvec, a.bytes()), "encode_to(Vec) differs from encode_to(fixed sink)");
	let mut d = Buf::<N>::new();
	through_dyn(&v, &mut d);
	assert!(same_bytes(&a, &d), "encode_to(dyn Output) differs");
	let ok = v.using_encoded(|s| same_slice(s, a.bytes()));
	assert!(ok, "using_encoded differs from encode_to");
	assert!(v.encoded_size() == a.n, "encoded_size differs from the produced length");
	kani::cover!(true, "reach: end of harness");
	core::mem::forget((v, b, cvec));
}
macro_rules! ent {
	($($name:ident: $t:ty, $c:expr, $n:literal, $u:literal;)*) => {$(
		#[kani::proof] #[kani::unwind($u)] pub fn $name() { h_entry::<$t, $n>($c) }
	)*};
}
ent! {
	c07q_ent_u8: u8, 0, 4, 5; c07q_ent_u32: u32, 0, 8, 7; c07q_ent_u128: u128, 0, 20, 19; c07q_ent_i64: i64, 0, 12, 11; c07q_ent_f64: f64, 0, 12, 11; c07q_ent_bool: bool, 0, 4, 5;
	c07q_ent_unit: (), 0, 4, 5; c07q_ent_compact_u32: Compact<u32>, 0, 20, 19; c07q_ent_compact_unit: Compact<()>, 0, 4, 5;
	c07q_ent_nz_u32: NonZeroU32, 0, 8, 7; c07q_ent_nz_i16: NonZeroI16, 0, 4, 5; c07q_ent_optionbool: OptionBool, 0, 4, 5; c07q_ent_duration: core::time::Duration, 0, 16, 15;
	c07q_ent_range: core::ops::Range<u16>, 0, 8, 7; c07q_ent_opt: Option<u32>, 0, 8, 8; c07q_ent_res: Result<u8, u16>, 0, 8, 6;
	c07q_ent_tup1: (u16,), 0, 4, 5; c07q_ent_tup1_vec: (Vec<u8>,), 2, 8, 7; c07q_ent_tup2: (u8, Compact<u16>), 0, 20, 19;
	c07q_ent_arr_u32: [u32; 2], 0, 12, 11; c07q_ent_arr_opt: [Option<u8>; 2], 0, 8, 7; c07q_ent_arr_optionbool: [OptionBool; 3], 0, 8, 7; c07q_ent_arr_compact_u8: [Compact<u8>; 2], 0, 20, 19;
	c07q_ent_arr_bool: [bool; 3], 0, 8, 7;
	c07t_ent_range_opt: core::ops::Range<Option<u16>>, 0, 8, 9;
	c07q_ent_vec_u8_2: Vec<u8>, 2, 8, 7; c07q_ent_vec_u16_2: Vec<u16>, 2, 8, 8; c07q_ent_vec_opt_2: Vec<Option<u8>>, 2, 8, 8; c07q_ent_deque_2: VecDeque<u16>, 2, 8, 8;
	c07q_ent_list_2: LinkedList<u8>, 2, 8, 7; c07q_ent_string_2: String, 2, 8, 7; c07q_ent_box: Box<u32>, 0, 8, 7; c07q_ent_rc_vec: Rc<Vec<u8>>, 2, 8, 7; c07q_ent_arc: Arc<Option<u8>>, 0, 4, 5;
	c07t_ent_u16: u16, 0, 4, 5; c07t_ent_u64: u64, 0, 12, 11; c07t_ent_i8: i8, 0, 4, 5; c07t_ent_i128: i128, 0, 20, 19; c07t_ent_f32: f32, 0, 8, 7;
	c07t_ent_compact_u8: Compact<u8>, 0, 20, 19; c07t_ent_compact_u16: Compact<u16>, 0, 20, 19;
	c07t_ent_nz_u128: NonZeroU128, 0, 20, 19; c07t_ent_phantom: core::marker::PhantomData<u8>, 0, 4, 5; c07t_ent_range_incl: core::ops::RangeInclusive<u16>, 0, 8, 7;
	c07t_ent_tup18: (u8, u8, u8, u8, u8, u8, u8, u8, u8, u8, u8, u8, u8, u8, u8, u8, u8, u8), 0, 20, 21; c07t_ent_vec_vec: Vec<Vec<u8>>, 2, 8, 8;
	c07t_ent_map_1: BTreeMap<u8, u8>, 1, 8, 7; c07t_ent_heap_2: BinaryHeap<u8>, 2, 8, 7; c07t_ent_vec_u32_2: Vec<u32>, 2, 12, 12; c07t_ent_vec_unit: Vec<()>, 3, 4, 6;
}
/// size-only entry point on ranges whose two bounds may have different encoded widths (the owned-vector paths of these
/// types allocate a Vec of symbolic capacity and do not finish; streaming + encoded_size + using_encoded length do)
fn h_size_only<T: Encode + Sym, const N: usize>() {
	let v = T::sym(0);
	let mut a = Buf::<N>::new();
	v.encode_to(&mut a);
	assert!(v.encoded_size() == a.n, "encoded_size differs from the streamed length");
	let mut d = Buf::<N>::new();
	through_dyn(&v, &mut d);
	assert!(same_bytes(&a, &d), "encode_to(dyn Output) differs");
	kani::cover!(true, "reach: end of harness");
}
#[kani::proof] #[kani::unwind(19)] pub fn c07q_size_range_compact() { h_size_only::<core::ops::Range<Compact<u8>>, 20>() }
#[kani::proof] #[kani::unwind(19)] pub fn c07t_size_range_incl_compact() { h_size_only::<core::ops::RangeInclusive<Compact<u16>>, 20>() }
#[kani::proof] #[kani::unwind(19)] pub fn c07q_size_duration() { h_size_only::<core::time::Duration, 16>() }

/// wide compacts: one query per encoded length K (a symbolic `Vec::with_capacity(size_hint)` is what makes
/// the unsplit query intractable; the split is over the value's length class, contents stay symbolic)
fn h_entry_compact<T: Copy + Into<u128>, const K: usize>(v: T) where Compact<T>: Encode {
	kani::assume(compact(v.into()).1 == K);
	let c = Compact(v);
	let mut a = Buf::<20>::new();
	c.encode_to(&mut a);
	assert!(a.n == K);
	let b = c.encode();
	assert!(same_slice(&b, a.bytes()), "encode() differs from encode_to");
	let mut cvec: Vec<u8> = Vec::with_capacity(20);
	c.encode_to(&mut cvec);
	assert!(same_slice(&cvec, a.bytes()), "encode_to(Vec) differs");
	let mut d = Buf::<20>::new();
	through_dyn(&c, &mut d);
	assert!(same_bytes(&a, &d), "encode_to(dyn Output) differs");
	assert!(c.using_encoded(|s| same_slice(s, a.bytes())), "using_encoded differs");
	assert!(c.encoded_size() == K && c.size_hint() == K, "encoded_size / size_hint differ from the produced length");
	core::mem::forget((b, cvec));
}
macro_rules! entc {
	($($name:ident: $t:ty, $k:literal;)*) => {$(
		#[kani::proof] #[kani::unwind(19)] pub fn $name() { let v: $t = kani::any(); h_entry_compact::<$t, $k>(v) }
	)*};
}
entc! {
	c07q_entc_u64_1: u64, 1; c07q_entc_u64_4: u64, 4; c07t_entc_u64_5: u64, 5; c07t_entc_u64_9: u64, 9; c07t_entc_u128_17: u128, 17; c07t_entc_u128_11: u128, 11;
	c07t_entc_u64_2: u64, 2; c07t_entc_u64_6: u64, 6; c07t_entc_u64_7: u64, 7; c07t_entc_u64_8: u64, 8; c07t_entc_u128_5: u128, 5; c07t_entc_u128_9: u128, 9; c07t_entc_u128_13: u128, 13;
}

/// strings with a multi-byte character: every entry point gives count-of-BYTES + UTF-8 bytes
#[kani::proof]
#[kani::unwind(10)]
pub fn c07q_ent_str_non_ascii() {
	let x: u8 = kani::any();
	kani::assume(x >= 0x80 && x <= 0xBF);
	let a: u8 = kani::any();
	kani::assume(a < 0x80);
	let raw = [a, 0xC3, x]; // one ASCII char + one two-byte char (U+00C0..U+00FF)
	let st = unsafe { core::str::from_utf8_unchecked(&raw) };
	let s = String::from(st);
	let mut buf = Buf::<8>::new(); st.encode_to(&mut buf);
	assert!(buf.n == 4 && buf.d[0] == 12 && buf.d[1] == a && buf.d[2] == 0xC3 && buf.d[3] == x, "str is not count-of-bytes + UTF-8 bytes");
	assert!(same_slice(&st.encode(), buf.bytes()), "str::encode differs from encode_to for a non-ASCII string");
	assert!(same_slice(&s.encode(), buf.bytes()), "String::encode differs from encode_to for a non-ASCII string");
	assert!(st.using_encoded(|b| same_slice(b, buf.bytes())) && s.using_encoded(|b| same_slice(b, buf.bytes())), "using_encoded differs for a non-ASCII string");
	assert!(st.encoded_size() == 4 && s.encoded_size() == 4);
	let t = (s.clone(),);
	assert!(same_slice(&t.encode(), buf.bytes()), "1-tuple of a non-ASCII String: encode() differs");
	core::mem::forget((s, t));
}

/// the two helper entry points built on using_encoded: Joiner::and (append) and KeyedVec::to_keyed_vec (prepend a key)
#[kani::proof]
#[kani::unwind(10)]
pub fn c07q_joiner_keyedvec() {
	use parity_scale_codec::{Joiner, KeyedVec};
	let v: (u16, Option<u8>) = (kani::any(), Option::<u8>::sym(0));
	let mut a = Buf::<8>::new();
	v.encode_to(&mut a);
	let pre: [u8; 2] = kani::any();
	let joined: Vec<u8> = alloc::vec![pre[0], pre[1]].and(&v);
	assert!(joined.len() == 2 + a.n && joined[0] == pre[0] && joined[1] == pre[1] && same_slice(&joined[2..], a.bytes()), "Joiner::and is not append-the-encoding");
	let keyed = v.to_keyed_vec(&pre[..]);
	assert!(same_slice(&keyed, &joined), "KeyedVec::to_keyed_vec is not key ++ encoding");
	core::mem::forget((joined, keyed));
}

/// str / [T] (unsized, override all methods)
#[kani::proof]
#[kani::unwind(8)]
pub fn c07q_ent_str_slice() {
	let s = String::sym(2);
	let st: &str = s.as_str();
	let mut a = Buf::<8>::new(); st.encode_to(&mut a);
	assert!(same_slice(&st.encode(), a.bytes()), "str::encode differs");
	assert!(st.using_encoded(|x| same_slice(x, a.bytes())), "str::using_encoded differs");
	assert!(st.encoded_size() == a.n);
	let v = Vec::<u16>::sym(2);
	let sl: &[u16] = &v[..];
	let mut b = Buf::<8>::new(); sl.encode_to(&mut b);
	assert!(same_slice(&sl.encode(), b.bytes()), "[T]::encode differs");
	assert!(sl.using_encoded(|x| same_slice(x, b.bytes())), "[T]::using_encoded differs");
	assert!(sl.encoded_size() == b.n);
	core::mem::forget((s, v));
}

// ---- bulk vs element-wise twin ------------------------------------------------------------
/// `Tw<P>` has a hand-written element-wise codec and TYPE_INFO = Unknown, so containers of it go
/// through the per-element paths; containers of `P` go through the bulk paths.
#[derive(Clone, Copy)]
pub struct Tw<P>(pub P);
impl<P: Encode> Encode for Tw<P> {
	fn encode_to<W: Output + ?Sized>(&self, dest: &mut W) { self.0.encode_to(dest) }
}
impl<P: Decode> Decode for Tw<P> {
	fn decode<I: Input>(input: &mut I) -> Result<Self, Error> { Ok(Tw(P::decode(input)?)) }
}
pub trait Bits: Copy { fn bits(self) -> u128; }
macro_rules! bits { ($($t:ty),*) => { $( impl Bits for $t { fn bits(self) -> u128 { self as u128 } } )* } }
bits!(u8, u16, u32, u64, u128, i8, i16, i32, i64, i128);
impl Bits for f32 { fn bits(self) -> u128 { self.to_bits() as u128 } }
impl Bits for f64 { fn bits(self) -> u128 { self.to_bits() as u128 } }

/// encode: slice / Vec / wrapped VecDeque / array of P  ==  the same of Tw<P>
pub fn h_bulk_enc<P: Encode + Sym + Bits, const N: usize>() {
	let x: [P; 3] = core::array::from_fn(|_| P::sym(0));
	let tw: [Tw<P>; 3] = [Tw(x[0]), Tw(x[1]), Tw(x[2])];
	let mut a = Buf::<N>::new(); x.encode_to(&mut a);
	let mut b = Buf::<N>::new(); tw.encode_to(&mut b);
	assert!(same_bytes(&a, &b), "array bulk encoding differs from element-wise");
	let mut a = Buf::<N>::new(); x[..].encode_to(&mut a);
	let mut b = Buf::<N>::new(); tw[..].encode_to(&mut b);
	assert!(same_bytes(&a, &b), "slice bulk encoding differs from element-wise");
	// wrapped deque: [x2 | x0 x1] physically
	let mut d: VecDeque<P> = VecDeque::with_capacity(4);
	let mut e: VecDeque<Tw<P>> = VecDeque::with_capacity(4);
	let mut i = 0;
	while i < 3 { d.push_back(x[0]); d.pop_front(); e.push_back(tw[0]); e.pop_front(); i += 1; }
	let mut i = 0;
	while i < 3 { d.push_back(x[i]); e.push_back(tw[i]); i += 1; }
	let mut c = Buf::<N>::new(); d.encode_to(&mut c);
	let mut f = Buf::<N>::new(); e.encode_to(&mut f);
	assert!(same_bytes(&c, &f) && same_bytes(&c, &a), "deque bulk encoding differs from element-wise / from the slice");
	core::mem::forget((d, e));
}
/// decode: Vec<P> vs Vec<Tw<P>> and [P;2] vs [Tw<P>;2] on the same symbolic bytes
pub fn h_bulk_dec<P: Decode + Bits, const L: usize>() {
	let bytes: [u8; L] = kani::any();
	let len: usize = kani::any();
	kani::assume(len <= L);
	let mut s1 = Pre::count(2, &bytes[..len]);
	let mut s2 = Pre::count(2, &bytes[..len]);
	let r1 = Vec::<P>::decode(&mut s1);
	let r2 = Vec::<Tw<P>>::decode(&mut s2);
	match (&r1, &r2) {
		(Ok(a), Ok(b)) => assert!(a.len() == 2 && b.len() == 2 && a[0].bits() == b[0].0.bits() && a[1].bits() == b[1].0.bits() && s1.rest.len() == s2.rest.len(), "bulk Vec decode differs from element-wise"),
		(Err(_), Err(_)) => {},
		_ => assert!(false, "bulk and element-wise Vec decode disagree on success"),
	}
	let mut t1 = &bytes[..len];
	let mut t2 = &bytes[..len];
	let q1 = <[P; 2]>::decode(&mut t1);
	let q2 = <[Tw<P>; 2]>::decode(&mut t2);
	match (&q1, &q2) {
		(Ok(a), Ok(b)) => assert!(a[0].bits() == b[0].0.bits() && a[1].bits() == b[1].0.bits() && t1.len() == t2.len(), "bulk array decode differs from element-wise"),
		(Err(_), Err(_)) => {},
		_ => assert!(false, "bulk and element-wise array decode disagree on success"),
	}
	kani::cover!(r1.is_ok(), "reach: accepted");
	kani::cover!(r1.is_err(), "info: rejected");
	core::mem::forget((r1, r2));
}
macro_rules! bulk {
	($($e:ident $d:ident: $t:ty, $n:literal, $l:literal, $u:literal;)*) => {$(
		#[kani::proof] #[kani::unwind($u)] pub fn $e() { h_bulk_enc::<$t, $n>() }
		#[kani::proof] #[kani::unwind($u)] pub fn $d() { h_bulk_dec::<$t, $l>() }
	)*};
}
bulk! {
	c07q_bulk_enc_u8 c07q_bulk_dec_u8: u8, 8, 3, 8; c07q_bulk_enc_u16 c07q_bulk_dec_u16: u16, 12, 5, 10; c07q_bulk_enc_u32 c07q_bulk_dec_u32: u32, 16, 9, 15;
	c07q_bulk_enc_i8 c07q_bulk_dec_i8: i8, 8, 3, 8; c07q_bulk_enc_i64 c07q_bulk_dec_i64: i64, 28, 17, 27; c07q_bulk_enc_f32 c07q_bulk_dec_f32: f32, 16, 9, 15;
	c07t_bulk_enc_u64 c07t_bulk_dec_u64: u64, 28, 17, 27; c07t_bulk_enc_u128 c07t_bulk_dec_u128: u128, 52, 33, 51; c07t_bulk_enc_i16 c07t_bulk_dec_i16: i16, 12, 5, 10;
	c07t_bulk_enc_i32 c07t_bulk_dec_i32: i32, 16, 9, 15; c07t_bulk_enc_i128 c07t_bulk_dec_i128: i128, 52, 33, 51; c07t_bulk_enc_f64 c07t_bulk_dec_f64: f64, 28, 17, 27;
}

// ---- std only: streaming into an io::Write sink (the blanket `Output for W: io::Write`), incl. a sink that accepts
// only a few bytes per write call (pipe/socket-like): every byte must still arrive, in order
#[cfg(feature = "cfg_std")]
pub mod io_write {
	use super::*;
	pub struct ShortWriter { pub d: [u8; 24], pub n: usize, pub per_call: usize, pub calls: usize }
	impl std::io::Write for ShortWriter {
		fn write(&mut self, buf: &[u8]) -> std::io::Result<usize> {
			let mut k = buf.len();
			if k > self.per_call { k = self.per_call; }
			let mut i = 0;
			while i < k { self.d[self.n + i] = buf[i]; i += 1; }
			self.n += k;
			self.calls += 1;
			Ok(k)
		}
		fn flush(&mut self) -> std::io::Result<()> { Ok(()) }
	}
	fn h_io_write<T: Encode + Sym, const N: usize>(c: usize) {
		let v = T::sym(c);
		let mut a = Buf::<N>::new();
		v.encode_to(&mut a);
		let per_call: usize = kani::any();
		kani::assume(per_call >= 1 && per_call <= 3);
		let mut w = ShortWriter { d: [0; 24], n: 0, per_call, calls: 0 };
		v.encode_to(&mut w);
		assert!(w.n == a.n, "streaming into a short-writing io::Write sink lost or duplicated bytes");
		let mut i = 0;
		while i < a.n { assert!(w.d[i] == a.d[i], "streaming into an io::Write sink changed a byte"); i += 1; }
		core::mem::forget(v);
	}
	#[kani::proof] #[kani::unwind(12)] pub fn c07q_iow_u64() { h_io_write::<u64, 12>(0) }
	#[kani::proof] #[kani::unwind(12)] pub fn c07q_iow_vec_u16_3() { h_io_write::<Vec<u16>, 12>(3) }
	#[kani::proof] #[kani::unwind(12)] pub fn c07q_iow_vec_opt_2() { h_io_write::<Vec<Option<u8>>, 12>(2) }
	#[kani::proof] #[kani::unwind(12)] pub fn c07t_iow_arr_u32_2() { h_io_write::<[u32; 2], 12>(0) }
	#[kani::proof] #[kani::unwind(19)] pub fn c07t_iow_compact_u32() { h_io_write::<Compact<u32>, 20>(0) }
	#[kani::proof] #[kani::unwind(12)] pub fn c07t_iow_string_3() { h_io_write::<String, 12>(3) }
}

/// negative twin: "encoded_size is always 4 for u32 vectors" must FAIL
#[kani::proof]
#[kani::unwind(12)]
pub fn c07n_twin_size() {
	let v = Vec::<u32>::sym(2);
	assert!(v.encoded_size() == 4);
}

/// decode side of the bulk paths: sequences and arrays of one-byte element types decode exactly like their elements one by one
/// (a bulk read must not skip the per-element validity check)
#[kani::proof]
#[kani::unwind(8)]
pub fn c07q_bulk_decode_matches_elementwise() {
	use parity_scale_codec::{Decode, OptionBool};
	let b: [u8; 3] = kani::any();
	macro_rules! elemwise { ($t:ty) => {{
		let mut i = &b[..];
		let e = [<$t>::decode(&mut i).is_ok(), <$t>::decode(&mut i).is_ok(), <$t>::decode(&mut i).is_ok()];
		let all = e[0] && e[1] && e[2];
		assert!(<[$t; 3]>::decode(&mut &b[..]).is_ok() == all, "array decode accepts/rejects differently from its elements one by one");
		assert!(Vec::<$t>::decode(&mut Pre::count(3, &b[..])).is_ok() == all, "Vec decode accepts/rejects differently from its elements one by one");
		assert!(alloc::collections::VecDeque::<$t>::decode(&mut Pre::count(2, &b[..2])).is_ok() == (e[0] && e[1]), "VecDeque decode accepts/rejects differently from its elements");
	}}; }
	elemwise!(bool);
	elemwise!(OptionBool);
	elemwise!(core::num::NonZeroU8);
	elemwise!(Option<()>);
}
