//! C17 (reduced): the index-validity kernel the derive macros emit, lifted verbatim from the real
//! macro expansion (gen_c17.rs), decided over ALL usize index arrays of size 1..=5:
//!   search_for_invalid_index(a).0  <=>  some index > 255        (and the position points at an offender)
//!   duplicate_info(a).0            <=>  two equal indices        (and the positions point at a pair)
//! and the runtime consequence: if neither fires, `index as u8` is injective and lossless, so the
//! derived `match` dispatches uniquely (ties C17 to C05).
use crate::gen_c17::*;

macro_rules! kernel {
	($name:ident, $m:ident, $n:literal, $u:literal) => {
		#[kani::proof]
		#[kani::unwind($u)]
		pub fn $name() {
			let idx: [usize; $n] = kani::any();
			let a: [(usize, &'static str); $n] = core::array::from_fn(|i| (idx[i], ""));
			let (inv, ipos) = $m::search_for_invalid_index(&a);
			let mut any_big = false;
			let mut i = 0;
			while i < $n { if idx[i] > 255 { any_big = true; } i += 1; }
			assert!(inv == any_big, "index > 255 detected iff present");
			if inv { assert!(ipos < $n && idx[ipos] > 255, "reported position is not an offending variant"); }
			let (dup, p, q) = $m::duplicate_info(&a);
			let mut any_dup = false;
			let mut i = 0;
			while i < $n { let mut j = i + 1; while j < $n { if idx[i] == idx[j] { any_dup = true; } j += 1; } i += 1; }
			assert!(dup == any_dup, "duplicate indices detected iff present");
			if dup { assert!(p < q && q < $n && idx[p] == idx[q], "reported pair is not a colliding pair"); }
			if !inv && !dup {
				// what the generated match arms rely on
				let mut i = 0;
				while i < $n {
					assert!((idx[i] as u8) as usize == idx[i], "accepted index does not fit the index byte");
					let mut j = i + 1;
					while j < $n { assert!(idx[i] as u8 != idx[j] as u8, "two accepted variants share an index byte"); j += 1; }
					i += 1;
				}
			}
			kani::cover!(inv, "reach: invalid index");
			kani::cover!(dup || $n == 1, "reach: duplicate");
			kani::cover!(!inv && !dup, "reach: accepted");
		}
	};
}
kernel!(c17q_kernel_n1, n1, 1, 4);
kernel!(c17q_kernel_n2, n2, 2, 5);
kernel!(c17q_kernel_n3, n3, 3, 6);
kernel!(c17q_kernel_n4, n4, 4, 7);
kernel!(c17q_kernel_n5, n5, 5, 8);
kernel!(c17t_kernel_n8, n8, 8, 11);

/// negative twin: "256 is a valid index" must FAIL
#[kani::proof]
#[kani::unwind(5)]
pub fn c17n_twin_256_valid() {
	let a: [(usize, &'static str); 2] = [(256, ""), (kani::any(), "")];
	assert!(!n2::search_for_invalid_index(&a).0);
}
