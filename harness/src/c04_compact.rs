//! C04 Compact integers: canonical, minimal, width-compatible bijection — decided at full width.
use crate::{io::*, spec::{self, Spec}};
use parity_scale_codec::{Compact, CompactLen, CompactRef, Decode, Encode, Input, Error};

/// ∀v: real encoder == spec::compact; compact_len, size_hint, using_encoded agree.
macro_rules! enc_harness {
	($name:ident, $t:ty) => {
		#[kani::proof]
		#[kani::unwind(19)]
		pub fn $name() {
			let v: $t = kani::any();
			let mut real = Buf::<17>::new();
			CompactRef(&v).encode_to(&mut real);
			let (exp, n) = spec::compact(v as u128);
			assert!(real.n == n, "compact length differs from the shortest SCALE form");
			let mut i = 0;
			while i < n { assert!(real.d[i] == exp[i], "compact bytes differ from the SCALE form"); i += 1; }
			assert!(<Compact<$t> as CompactLen<$t>>::compact_len(&v) == n, "compact_len != produced length");
			assert!(CompactRef(&v).size_hint() == n, "size_hint != produced length");
			// owned wrapper goes the same way
			let mut real2 = Buf::<17>::new();
			Compact(v).encode_to(&mut real2);
			assert!(same_bytes(&real, &real2), "Compact<T> and CompactRef<T> differ");
			// borrowed-slice callback form (ArrayVec path)
			let ok = CompactRef(&v).using_encoded(|b| {
				if b.len() != n { return false }
				let mut i = 0;
				while i < n { if b[i] != exp[i] { return false } i += 1; }
				true
			});
			assert!(ok, "using_encoded bytes differ");
			kani::cover!(n == 1);
			kani::cover!(n == core::mem::size_of::<$t>() + 1 || core::mem::size_of::<$t>() < 4);
		}
	};
}
enc_harness!(c04q_enc_u8, u8);
enc_harness!(c04q_enc_u16, u16);
enc_harness!(c04q_enc_u32, u32);
enc_harness!(c04q_enc_u64, u64);
enc_harness!(c04q_enc_u128, u128);

/// ∀ byte strings b (symbolic length ≤ 18): real decoder accepts iff b begins with exactly the
/// canonical form of a value that fits, returns that value and consumes exactly that form.
macro_rules! dec_harness {
	($name:ident, $t:ty, $w:literal, $max:literal, $inp:ident) => {
		#[kani::proof]
		#[kani::unwind(19)]
		pub fn $name() {
			let bytes: [u8; $max] = kani::any();
			let len: usize = kani::any();
			kani::assume(len <= $max);
			let m = spec::compact_decode(&bytes[..len], $w);
			let (r, used) = $inp!(bytes, len, $t);
			match (r, m) {
				(Ok(Compact(v)), Some((mv, mn))) => {
					assert!(v as u128 == mv, "decoded value differs from the model");
					assert!(used == mn, "consumed length differs from the model");
				},
				(Err(_), None) => {},
				(Ok(_), None) => { assert!(false, "decoder accepted a non-canonical / over-wide / truncated compact"); },
				(Err(_), Some(_)) => { assert!(false, "decoder rejected a canonical compact that fits"); },
			}
			kani::cover!(m.is_some());
			kani::cover!(m.is_none() && len > 0);
		}
	};
}
macro_rules! via_slice { ($b:ident, $l:ident, $t:ty) => {{ let mut s = &$b[..$l]; let r = Compact::<$t>::decode(&mut s); (r, $l - s.len()) }}; }
macro_rules! via_unk { ($b:ident, $l:ident, $t:ty) => {{ let mut s = Unk(&$b[..$l]); let r = Compact::<$t>::decode(&mut s); (r, $l - s.0.len()) }}; }
dec_harness!(c04q_dec_u8, u8, 8, 3, via_slice);
dec_harness!(c04q_dec_u16, u16, 16, 5, via_slice);
dec_harness!(c04q_dec_u32, u32, 32, 6, via_slice);
dec_harness!(c04q_dec_u64, u64, 64, 10, via_slice);
dec_harness!(c04q_dec_u128, u128, 128, 18, via_slice);
dec_harness!(c04t_dec_u32_unk, u32, 32, 6, via_unk);
dec_harness!(c04t_dec_u64_unk, u64, 64, 10, via_unk);

/// Width compatibility, asserted directly on the real encoders.
macro_rules! width_harness {
	($name:ident, $small:ty, $big:ty) => {
		#[kani::proof]
		#[kani::unwind(19)]
		pub fn $name() {
			let v: $small = kani::any();
			let mut a = Buf::<17>::new();
			let mut b = Buf::<17>::new();
			Compact(v).encode_to(&mut a);
			Compact(v as $big).encode_to(&mut b);
			assert!(same_bytes(&a, &b), "same value encodes differently under two widths");
			// and the wide decoder returns it from the narrow encoder's bytes
			let mut s = a.bytes();
			match Compact::<$big>::decode(&mut s) {
				Ok(Compact(x)) => { assert!(x == v as $big && s.is_empty()); },
				Err(_) => { assert!(false, "wide decoder rejected narrow encoding"); },
			}
		}
	};
}
width_harness!(c04q_width_u8_u16, u8, u16);
width_harness!(c04q_width_u16_u32, u16, u32);
width_harness!(c04q_width_u32_u64, u32, u64);
width_harness!(c04q_width_u64_u128, u64, u128);
width_harness!(c04t_width_u8_u128, u8, u128);
width_harness!(c04t_width_u32_u128, u32, u128);
width_harness!(c04t_width_u16_u64, u16, u64);

/// Narrow decoder rejects exactly the values that do not fit.
#[kani::proof]
#[kani::unwind(19)]
pub fn c04q_narrow_rejects_wide() {
	let v: u64 = kani::any();
	let mut a = Buf::<17>::new();
	Compact(v).encode_to(&mut a);
	let mut s = a.bytes();
	let r = Compact::<u32>::decode(&mut s);
	assert!(r.is_ok() == (v <= u32::MAX as u64));
	let mut s = a.bytes();
	let r = Compact::<u16>::decode(&mut s);
	assert!(r.is_ok() == (v <= u16::MAX as u64));
	let mut s = a.bytes();
	let r = Compact::<u8>::decode(&mut s);
	assert!(r.is_ok() == (v <= u8::MAX as u64));
}

/// Negative twin: a deliberately wrong oracle (threshold 2^6 moved by one) must FAIL.
#[kani::proof]
#[kani::unwind(19)]
pub fn c04n_twin_wrong_threshold() {
	let v: u32 = kani::any();
	let mut real = Buf::<17>::new();
	Compact(v).encode_to(&mut real);
	assert!(real.n == if v <= 64 { 1 } else { spec::compact(v as u128).1 });
}
