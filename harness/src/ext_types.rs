//! Optional integrations (bit-vec, bytes, generic-array) for C01 / C02 / C03 / C06 / C09:
//! harness names carry the property prefix, the module is compiled with any of those features.
use crate::{gen::*, io::*, spec::*, sym::Sym};
use alloc::{boxed::Box, vec::Vec};
use bitvec::prelude::*;
use generic_array::{typenum::{U0, U3}, GenericArray};
use parity_scale_codec::{Compact, Decode, Encode};

// ---- bit sequences -------------------------------------------------------------------------
/// model: logical bools -> compact bit count + zero padded words (see spec::enc_bits)
fn bits_of<T: BitStore, O: BitOrder>(s: &BitSlice<T, O>, out: &mut [bool; 16]) -> usize {
	let mut i = 0;
	while i < s.len() { out[i] = s[i]; i += 1; }
	s.len()
}
/// C01/C06: sub-slice [OFF, OFF+N) of ONE symbolic u8 word (bitvec's specialised bit copies across words do not finish)
fn bit_enc_u8<O: BitOrder, const OFF: usize, const N: usize>(msb0: bool) {
	let w: [u8; 1] = kani::any();
	let bits = &w.view_bits::<O>()[OFF..OFF + N];
	let mut real = Buf::<4>::new();
	bits.encode_to(&mut real);
	// logical bit i is bit (OFF+i) of the backing word in the given order
	let mut logical = [false; 8];
	let mut i = 0;
	while i < N {
		let k = OFF + i;
		logical[i] = if msb0 { (w[0] >> (7 - k)) & 1 == 1 } else { (w[0] >> k) & 1 == 1 };
		i += 1;
	}
	let mut exp = Buf::<4>::new();
	enc_bits(&logical[..N], 1, msb0, &mut exp);
	assert!(same_bytes(&real, &exp), "bit sequence encoding depends on the offset inside its backing word / padding not zero");
}
macro_rules! bits {
	($($name:ident: $o:ty, $off:literal, $n:literal, $msb:literal;)*) => {$(
		#[kani::proof] #[kani::unwind(10)] pub fn $name() { bit_enc_u8::<$o, $off, $n>($msb) }
	)*};
}
// Feasible region (measured, 300 s cap): Lsb0 order, u8 store, slices that do not reach the last bit of their word
// (20-35 s each). Msb0 order, u16 stores, slices touching the word's end, BitVec::push and multi-word slices do not finish:
// outside the bound (bitvec's specialised bit-copy code dominates the query).
#[cfg(any(feature = "c01", feature = "c06"))]
bits! {
	c06q_bits_lsb_o2_n3: Lsb0, 2, 3, false; c06q_bits_lsb_o1_n6: Lsb0, 1, 6, false; c06q_bits_lsb_o0_n5: Lsb0, 0, 5, false;
	c06t_bits_lsb_o4_n1: Lsb0, 4, 1, false; c06t_bits_lsb_o1_n0: Lsb0, 1, 0, false; c06t_bits_lsb_o3_n4: Lsb0, 3, 4, false; c06t_bits_lsb_o0_n7: Lsb0, 0, 7, false;
	c01q_bits_lsb_o2_n4: Lsb0, 2, 4, false; c01t_bits_lsb_o1_n5: Lsb0, 1, 5, false;
}

// NOTE: the two `c06x_` harnesses below are NOT part of any registered check (no filter matches the prefix): measured 2026-10-04,
// both run into the 2400 s cap (bitvec's owned-buffer paths: pointer-encoded bit spans over heap storage). They document the edge of
// the feasible region: bit SLICES inside one word are decided (c06q_bits_*), owned BitVec/BitBox values are outside the bounds.
/// C01/C06: an OWNED bit vector whose storage holds stale bits behind its end (decoded from bytes with non-zero padding; the
/// decoder does not inspect padding) must still encode with ZERO padding: equal vectors encode equally, whatever their history
#[cfg(any(feature = "c01", feature = "c06"))]
#[kani::proof]
#[kani::unwind(10)]
pub fn c06x_bitvec_stale_padding_is_not_encoded() {
	let w: u8 = kani::any();
	let payload = [w];
	let r = BitVec::<u8, Lsb0>::decode(&mut Pre::count(5, &payload[..]));
	let v = match r { Ok(v) => v, Err(_) => { assert!(false, "5 bits with 1 byte present must decode"); return } };
	let mut real = Buf::<4>::new();
	v.encode_to(&mut real);
	assert!(real.n == 2 && real.d[0] == 5 << 2, "bit vector: wrong length or count prefix");
	assert!(real.d[1] == w & 0x1f, "bit vector: bits behind the end of the vector leaked into the encoding (padding must be zero)");
	kani::cover!(w & 0xe0 != 0, "reach: stale bits present in storage");
	core::mem::forget(v);
}
/// C01/C06: a boxed bit slice that starts INSIDE its first storage word encodes its own bits, not the word's
#[cfg(any(feature = "c01", feature = "c06"))]
#[kani::proof]
#[kani::unwind(10)]
pub fn c06x_bitbox_at_offset() {
	let w: [u8; 1] = kani::any();
	let b: BitBox<u8, Lsb0> = BitBox::from_bitslice(&w.view_bits::<Lsb0>()[2..5]);
	let mut real = Buf::<4>::new();
	b.encode_to(&mut real);
	assert!(real.n == 2 && real.d[0] == 3 << 2);
	assert!(real.d[1] == (w[0] >> 2) & 7, "boxed bit slice: encoding ignores the offset of the box inside its first word");
	core::mem::forget(b);
}

/// C03: BitVec<u8,Lsb0>::decode with a concrete bit count C (one-byte prefix) over ALL payloads of symbolic length <= L:
/// accepted iff ceil(C/8) bytes are present; the live bits are the input bits (read through the raw storage words: per-bit
/// indexing drags bitvec's pointer arithmetic into the query), consumption is exact; padding bits are not inspected.
#[cfg(any(feature = "c03", feature = "c02"))]
fn bitvec_dec<const C: usize, const L: usize>() {
	let bytes: [u8; L] = kani::any();
	let len: usize = kani::any();
	kani::assume(len <= L);
	let mut s = Pre::count(C, &bytes[..len]);
	let r = BitVec::<u8, Lsb0>::decode(&mut s);
	let words = (C + 7) / 8;
	assert!(r.is_ok() == (len >= words), "bit sequence accepted iff its storage words are present");
	if let Ok(v) = &r {
		assert!(v.len() == C && len - s.rest.len() == words, "bit length / consumption differs from the reference");
		let raw = v.as_raw_slice();
		assert!(raw.len() == words);
		let mut j = 0;
		while j < words {
			let live = if (j + 1) * 8 <= C { 0xffu8 } else { (1u8 << (C % 8)) - 1 };
			assert!(raw[j] & live == bytes[j] & live, "decoded bits differ from the input");
			j += 1;
		}
	}
	kani::cover!(r.is_ok(), "reach: accepted");
	core::mem::forget(r);
}
#[cfg(any(feature = "c03", feature = "c02"))] #[kani::proof] #[kani::unwind(6)] pub fn c03q_bitvec_u8_c3() { bitvec_dec::<3, 2>() }
#[cfg(any(feature = "c03", feature = "c02"))] #[kani::proof] #[kani::unwind(6)] pub fn c03q_bitvec_u8_c9() { bitvec_dec::<9, 3>() }
#[cfg(any(feature = "c03", feature = "c02"))] #[kani::proof] #[kani::unwind(6)] pub fn c03t_bitvec_u8_c0() { bitvec_dec::<0, 1>() }
#[cfg(any(feature = "c03", feature = "c02"))] #[kani::proof] #[kani::unwind(6)] pub fn c03t_bitvec_u8_c8() { bitvec_dec::<8, 2>() }
#[cfg(any(feature = "c03", feature = "c02"))]
#[kani::proof]
#[kani::unwind(8)]
pub fn c03q_bitvec_cap() {
	// 2^29-1 bits is the largest accepted count; 2^29 must be rejected before any allocation-size arithmetic
	let junk: [u8; 2] = kani::any();
	let r = BitVec::<u8, Msb0>::decode(&mut Pre::count32(0x2000_0000, &junk[..]));
	assert!(r.is_err(), "a bit sequence longer than 2^29-1 bits was accepted");
	let r2 = BitVec::<u16, Lsb0>::decode(&mut Pre::count32(u32::MAX, &junk[..]));
	assert!(r2.is_err());
	core::mem::forget((r, r2));
}
/// the 2^29-1 cap must fire before any storage is announced/reserved (with the cap gone the count still fails later for lack
/// of data, so the rejection alone does not show it): decode through an input that aborts at the first announcement
#[cfg(any(feature = "c03", feature = "c02"))]
#[kani::proof]
#[kani::unwind(8)]
pub fn c03q_bitvec_cap_fires_before_alloc() {
	// 0x2000_0000 bits = the smallest count above the cap, canonical four-byte-mode compact (0x2000_0000 << 2) | 2 = 0x8000_0002
	let input: [u8; 7] = [0x02, 0x00, 0x00, 0x80, 0xff, 0xff, 0xff];
	let mut h = HookAbort { inner: &input[..], seen: None, descends: 0 };
	let r = BitVec::<u8, Lsb0>::decode(&mut h);
	assert!(r.is_err());
	assert!(h.seen.is_none(), "a bit count above 2^29-1 reached the allocation path instead of being rejected by the cap");
	// the largest accepted count does reach it
	let ok: [u8; 7] = [0xfe, 0xff, 0xff, 0x7f, 0xff, 0xff, 0xff];
	let mut h2 = HookAbort { inner: &ok[..], seen: None, descends: 0 };
	let r2 = BitVec::<u8, Lsb0>::decode(&mut h2);
	assert!(r2.is_err() && h2.seen.is_some(), "harness: 2^29-1 bits must be admitted by the cap");
	core::mem::forget((r, r2));
}

/// C02: BitVec round trip within one store word
#[cfg(any(feature = "c03", feature = "c02"))]
#[kani::proof]
#[kani::unwind(18)]
pub fn c02t_bitvec_roundtrip() {
	let x: [bool; 5] = kani::any();
	let mut v: BitVec<u8, Lsb0> = BitVec::new();
	let mut i = 0;
	while i < 5 { v.push(x[i]); i += 1; }
	let mut b = Buf::<4>::new();
	v.encode_to(&mut b);
	assert!(b.n == 2 && b.d[0] == 20);
	let r = BitVec::<u8, Lsb0>::decode(&mut Pre::count(5, &b.d[1..2]));
	match &r { Ok(w) => { assert!(w.len() == 5); let mut i = 0; while i < 5 { assert!(w[i] == x[i]); i += 1; } }, Err(_) => { assert!(false); } }
	core::mem::forget((v, r));
}

// ---- generic-array ---------------------------------------------------------------------------
#[cfg(any(feature = "c01", feature = "c03", feature = "c02"))]
#[kani::proof]
#[kani::unwind(9)]
pub fn c03q_generic_array() {
	let bytes: [u8; 7] = kani::any();
	let len: usize = kani::any();
	kani::assume(len <= 7);
	let mut s = &bytes[..len];
	let r = GenericArray::<u16, U3>::decode(&mut s);
	assert!(r.is_ok() == (len >= 6), "GenericArray<u16,3> accepts iff six bytes are present");
	if let Ok(a) = &r {
		assert!(len - s.len() == 6);
		let mut i = 0;
		while i < 3 { assert!(a[i] == (bytes[2 * i] as u16) | ((bytes[2 * i + 1] as u16) << 8)); i += 1; }
		let mut e = Buf::<8>::new();
		a.encode_to(&mut e);
		assert!(same_slice(e.bytes(), &bytes[..6]), "GenericArray encoding is not the plain concatenation");
	}
	let z = GenericArray::<u8, U0>::decode(&mut &bytes[..0]);
	assert!(z.is_ok());
}

// ---- bytes::Bytes ------------------------------------------------------------------------------
#[cfg(any(feature = "c01", feature = "c03", feature = "c02"))]
#[kani::proof]
#[kani::unwind(8)]
pub fn c03q_bytes_slice_path() {
	let bytes: [u8; 4] = kani::any();
	let len: usize = kani::any();
	kani::assume(len <= 4);
	let mut s = Pre::count(2, &bytes[..len]);
	let r = bytes::Bytes::decode(&mut s);
	assert!(r.is_ok() == (len >= 2));
	if let Ok(b) = &r {
		assert!(b.len() == 2 && b[0] == bytes[0] && b[1] == bytes[1] && s.rest.len() == len - 2);
		let mut e = Buf::<8>::new();
		b.encode_to(&mut e);
		assert!(e.n == 3 && e.d[0] == 8 && e.d[1] == bytes[0] && e.d[2] == bytes[1], "Bytes does not encode as count + bytes");
	}
	core::mem::forget(r);
}
