// placeholder; overwritten by tools/check.py when replaying
