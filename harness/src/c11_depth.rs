//! C11 Depth-limited decoding is transparent, monotone and stack-safe.
use crate::{gen::*, io::*, spec::*, sym::Sym};
use alloc::{boxed::Box, collections::*, rc::Rc, string::String, sync::Arc, vec::Vec};
use parity_scale_codec::{Compact, Decode, DecodeLimit, Encode, Input};

/// 1. transparency + exact threshold: r0 unlimited, r1 = decode_with_depth_limit(lim), lim symbolic.
///   r1 Ok => r1 == r0;  r0 Err => r1 Err;  r0 Ok(v) => (r1 Ok <=> lim >= depth(v))   [monotone in lim]
pub fn h_depth<T: Decode + Spec, const L: usize>(c: Option<u32>, symbolic_len: bool) {
	let bytes: [u8; L] = kani::any();
	let len: usize = if symbolic_len { kani::any() } else { L };
	kani::assume(len <= L);
	let lim: u32 = kani::any();
	kani::assume(lim <= 8);
	let (r0, used0, r1, used1) = match c {
		Some(c) => {
			let mut i0 = Pre::count32(c, &bytes[..len]);
			let r0 = T::decode(&mut i0);
			let mut i1 = Pre::count32(c, &bytes[..len]);
			let r1 = T::decode_with_depth_limit(lim, &mut i1);
			(r0, len - i0.rest.len(), r1, len - i1.rest.len())
		},
		None => {
			let mut i0 = &bytes[..len];
			let r0 = T::decode(&mut i0);
			let mut i1 = &bytes[..len];
			let r1 = T::decode_with_depth_limit(lim, &mut i1);
			(r0, len - i0.len(), r1, len - i1.len())
		},
	};
	match (&r0, &r1) {
		(Ok(a), Ok(b)) => {
			assert!(a.same(b) && used0 == used1, "depth-limited decode returned something else than unlimited decode");
			assert!(lim >= a.spec_depth(), "succeeded although the value nests deeper than the limit");
		},
		(Ok(a), Err(_)) => assert!(lim < a.spec_depth(), "failed although the limit is at least the nesting depth of the value"),
		(Err(_), Ok(_)) => assert!(false, "depth-limited decode succeeded where unlimited decode fails"),
		(Err(_), Err(_)) => {},
	}
	kani::cover!(r0.is_ok() && r1.is_ok(), "info: both ok");
	kani::cover!(true, "reach: end of harness");
	kani::cover!(r0.is_ok() && r1.is_err(), "info: limit hit");
	core::mem::forget((r0, r1));
}
macro_rules! dp {
	($($name:ident: $t:ty, $c:expr, $l:literal, $s:literal, $u:literal;)*) => {$(
		#[kani::proof] #[kani::unwind($u)] pub fn $name() { h_depth::<$t, $l>($c, $s) }
	)*};
}
dp! {
	c11q_dp_u32: u32, None, 5, true, 7; c11q_dp_opt: Option<u16>, None, 4, true, 6; c11q_dp_arr: [bool; 2], None, 3, true, 5;
	c11q_dp_box: Box<u8>, None, 2, true, 4; c11q_dp_box_box: Box<Box<u8>>, None, 2, true, 4; c11q_dp_rc: Rc<Option<bool>>, None, 3, true, 5; c11q_dp_arc_box: Arc<Box<u8>>, None, 2, true, 4;
	c11q_dp_opt_box: Option<Box<Box<bool>>>, None, 3, true, 5;
	c11q_dp_siblings_tuple: (Box<Box<u8>>, Box<u8>), None, 3, true, 5; c11q_dp_siblings_arr: [Box<u8>; 3], None, 4, true, 6;
	c11q_dp_vec_u8_2: Vec<u8>, Some(2), 3, true, 6; c11q_dp_vec_bool_2: Vec<bool>, Some(2), 3, true, 6; c11q_dp_vec_bool_0: Vec<bool>, Some(0), 1, true, 4;
	c11q_dp_vec_box_2: Vec<Box<u8>>, Some(2), 3, true, 6; c11q_dp_box_vec_bool: Box<Vec<bool>>, Some(2), 3, true, 7; c11q_dp_deque_box: VecDeque<Box<bool>>, Some(2), 3, true, 6;
	c11q_dp_list_2: LinkedList<u8>, Some(2), 3, true, 6; c11q_dp_list_box: LinkedList<Box<u8>>, Some(1), 2, true, 6;
	c11q_dp_empty_vec_then_box: (Vec<bool>, Box<u8>), Some(0), 2, true, 6; c11q_dp_empty_vec_then_vec: (Vec<Option<u8>>, Box<Box<u8>>), Some(0), 2, true, 6;
	c11q_dp_map_1: BTreeMap<u8, u8>, Some(1), 2, false, 6; c11q_dp_set_1: BTreeSet<u8>, Some(1), 1, false, 6; c11q_dp_string: String, Some(2), 2, false, 8;
	c11t_dp_vec_opt_box: Vec<Option<Box<bool>>>, Some(2), 5, true, 8; c11t_dp_vec_arr_box: Vec<[Box<u8>; 2]>, Some(1), 3, true, 6; c11t_dp_heap_2: BinaryHeap<u8>, Some(2), 2, false, 8;
	c11t_dp_box3: Box<Box<Box<bool>>>, None, 2, true, 4; c11t_dp_vec_u32_1: Vec<u32>, Some(1), 5, true, 8; c11t_dp_res: Result<Box<u8>, Box<Box<u8>>>, None, 3, true, 5;
}

/// a value type that counts one nesting level but owns no heap (no drop glue: keeps std's B-tree build out of the query's
/// way): containers inside a map's entries must see the map's level
#[derive(Clone, Copy, PartialEq, Eq, PartialOrd, Ord)]
pub struct Lvl(pub u8);
impl Decode for Lvl {
	fn decode<I: Input>(input: &mut I) -> Result<Self, parity_scale_codec::Error> {
		input.descend_ref()?;
		let b = input.read_byte();
		input.ascend_ref();
		Ok(Lvl(b?))
	}
}
impl Spec for Lvl {
	fn spec_enc<const N: usize>(&self, o: &mut Buf<N>) { o.put(self.0) }
	fn spec_dec(c: &mut Cur) -> Option<Self> { Some(Lvl(c.byte()?)) }
	fn same(&self, o: &Self) -> bool { self.0 == o.0 }
	fn spec_depth(&self) -> u32 { 1 }
}
impl Elem for Lvl {}
dp! {
	c11q_dp_list_elem_level: LinkedList<Lvl>, Some(2), 2, true, 6; c11q_dp_vec_elem_level: Vec<Lvl>, Some(2), 2, true, 6; c11t_dp_deque_elem_level: VecDeque<Lvl>, Some(2), 2, true, 6;
}
/// maps / sets: the limit is CONCRETE per query (a symbolic limit makes the number of collected entries content-dependent,
/// which drags std's sort into the query); depth of a one-entry map of Lvl values is 2: limit 1 must fail, limit 2 succeed
fn map_level<T: Decode, const L: usize>(lim: u32, expect_ok: bool) {
	let bytes: [u8; L] = kani::any();
	let r = T::decode_with_depth_limit(lim, &mut Pre::count(1, &bytes[..]));
	assert!(r.is_ok() == expect_ok, "nesting inside a map/set entry is not counted below the map's own level");
	core::mem::forget(r);
}
#[kani::proof] #[kani::unwind(6)] pub fn c11q_map_value_level_lim1() { map_level::<BTreeMap<u8, Lvl>, 2>(1, false) }
#[kani::proof] #[kani::unwind(6)] pub fn c11q_map_value_level_lim2() { map_level::<BTreeMap<u8, Lvl>, 2>(2, true) }
#[kani::proof] #[kani::unwind(6)] pub fn c11q_set_elem_level_lim1() { map_level::<BTreeSet<Lvl>, 1>(1, false) }
#[kani::proof] #[kani::unwind(6)] pub fn c11t_set_elem_level_lim2() { map_level::<BTreeSet<Lvl>, 1>(2, true) }
#[kani::proof] #[kani::unwind(6)] pub fn c11t_map_key_level_lim1() { map_level::<BTreeMap<Lvl, u8>, 2>(1, false) }

/// decode_all_with_depth_limit additionally rejects a non-empty remainder (also decided in C14)
#[kani::proof]
#[kani::unwind(6)]
pub fn c11q_decode_all_with_limit() {
	let bytes: [u8; 3] = kani::any();
	let len: usize = kani::any();
	kani::assume(len <= 3);
	let lim: u32 = kani::any();
	let mut a = &bytes[..len];
	let r = Box::<Box<u8>>::decode_all_with_depth_limit(lim, &mut a);
	assert!(r.is_ok() == (len == 1 && lim >= 2), "decode_all_with_depth_limit: wrong acceptance");
	core::mem::forget(r);
}

// ---- recursive derived types: deep-but-narrow input
#[derive(Encode, Decode)]
pub enum Tree { Leaf(u8), Node(Box<Tree>) }
impl Spec for Tree {
	fn spec_enc<const N: usize>(&self, o: &mut Buf<N>) { match self { Tree::Leaf(x) => { o.put(0); o.put(*x); }, Tree::Node(b) => { o.put(1); b.spec_enc(o); } } }
	fn spec_dec(c: &mut Cur) -> Option<Self> { match c.byte()? { 0 => Some(Tree::Leaf(c.byte()?)), 1 => Some(Tree::Node(Box::new(Tree::spec_dec(c)?))), _ => None } }
	fn same(&self, o: &Self) -> bool { match (self, o) { (Tree::Leaf(a), Tree::Leaf(b)) => a == b, (Tree::Node(a), Tree::Node(b)) => (**a).same(&**b), _ => false } }
	fn spec_depth(&self) -> u32 { match self { Tree::Leaf(_) => 0, Tree::Node(b) => 1 + (**b).spec_depth() } }
}
#[kani::proof]
#[kani::unwind(9)]
pub fn c11q_tree_5() { h_depth::<Tree, 5>(None, true) }
#[kani::proof]
#[kani::unwind(10)]
pub fn c11t_tree_6() { h_depth::<Tree, 6>(None, true) }

#[derive(Encode, Decode)]
pub enum List { Nil, Cons(u8, Rc<List>) }
impl Spec for List {
	fn spec_enc<const N: usize>(&self, o: &mut Buf<N>) { match self { List::Nil => o.put(0), List::Cons(x, r) => { o.put(1); o.put(*x); r.spec_enc(o); } } }
	fn spec_dec(c: &mut Cur) -> Option<Self> { match c.byte()? { 0 => Some(List::Nil), 1 => { let x = c.byte()?; Some(List::Cons(x, Rc::new(List::spec_dec(c)?))) }, _ => None } }
	fn same(&self, o: &Self) -> bool { match (self, o) { (List::Nil, List::Nil) => true, (List::Cons(a, x), List::Cons(b, y)) => a == b && (**x).same(&**y), _ => false } }
	fn spec_depth(&self) -> u32 { match self { List::Nil => 0, List::Cons(_, r) => 1 + (**r).spec_depth() } }
}
#[kani::proof]
#[kani::unwind(10)]
pub fn c11t_list_6() { h_depth::<List, 6>(None, true) }

/// 2. arbitrary depth, ONE inductive step (source hook): the real depth tracking input in an
/// arbitrary state (depth d, max m): descend succeeds iff d+1 <= m and sets depth d+1; ascend
/// restores d; the wrapped input sees both hooks exactly once.
#[kani::proof]
#[kani::unwind(4)]
pub fn c11q_step_any_state() {
	let d: u32 = kani::any();
	let m: u32 = kani::any();
	kani::assume(d < u32::MAX);
	let bytes: [u8; 1] = kani::any();
	let mut inner = HookLog::new(&bytes[..]);
	let (r, after_descend, after_ascend) = parity_scale_codec::__verif_depth_step(&mut inner, d, m);
	assert!(after_descend == d + 1, "descend does not increase the depth by exactly one");
	assert!(r.is_ok() == (d + 1 <= m), "descend succeeds iff the new depth does not exceed the limit");
	assert!(after_ascend == d, "ascend does not restore the depth");
	assert!(inner.max_depth == 1 && inner.depth == 0, "hooks not forwarded exactly once");
	kani::cover!(r.is_err(), "reach: limit hit");
	kani::cover!(r.is_ok() && d > 1000, "reach: deep state");
}
/// ... and decoding from state (d, m) behaves like decoding from (0, m-d): the limit is a budget of
/// remaining levels, whatever the absolute depth (so, by induction over nesting, recursion is cut
/// at m+1 levels for input of ANY depth), and a successful decode leaves the depth where it was.
#[kani::proof]
#[kani::unwind(8)]
pub fn c11q_decode_from_any_state() {
	let d: u32 = kani::any();
	let m: u32 = kani::any();
	// state invariant of every real execution: depth <= max + 1 and depth < u32::MAX (2^32 nested levels need > 4 GiB of input)
	kani::assume(d <= m && m - d <= 4 && m < u32::MAX);
	let bytes: [u8; 4] = kani::any();
	let len: usize = kani::any();
	kani::assume(len <= 4);
	let mut a = &bytes[..len];
	let (r1, final_depth) = parity_scale_codec::__verif_decode_at_depth::<Tree, _>(&mut a, d, m);
	let mut b = &bytes[..len];
	let r2 = Tree::decode_with_depth_limit(m - d, &mut b);
	match (&r1, &r2) {
		(Ok(x), Ok(y)) => assert!(x.same(y) && a.len() == b.len() && final_depth == d, "decode from depth d differs from a fresh decode with budget m-d / depth not restored"),
		(Err(_), Err(_)) => {},
		_ => assert!(false, "remaining-depth budget depends on the absolute depth"),
	}
	kani::cover!(r1.is_ok() && d > 100, "reach: ok from a deep state");
	core::mem::forget((r1, r2));
}

/// every container kind restores the depth it found, also when it is empty (a leaked level would make wide-but-shallow
/// values fail under limits that are high enough): decode from an arbitrary (depth, max) state, final depth == start
fn restores_depth<T: Decode, const L: usize>(c: u32) {
	let d: u32 = kani::any();
	let m: u32 = kani::any();
	kani::assume(d <= m && m < u32::MAX);
	let bytes: [u8; L] = kani::any();
	let mut inp = Pre::count32(c, &bytes[..]);
	let (r, final_depth) = parity_scale_codec::__verif_decode_at_depth::<T, _>(&mut inp, d, m);
	if r.is_ok() { assert!(final_depth == d, "a successful decode left the nesting depth changed (leaked or over-released a level)"); }
	kani::cover!(r.is_ok(), "reach: decode ok");
	core::mem::forget(r);
}
#[kani::proof] #[kani::unwind(6)] pub fn c11q_restore_empty_vec() { restores_depth::<Vec<bool>, 1>(0) }
#[kani::proof] #[kani::unwind(6)] pub fn c11q_restore_vec_2() { restores_depth::<Vec<bool>, 2>(2) }
#[kani::proof] #[kani::unwind(6)] pub fn c11q_restore_empty_list() { restores_depth::<LinkedList<u8>, 1>(0) }
#[kani::proof] #[kani::unwind(6)] pub fn c11q_restore_empty_map() { restores_depth::<BTreeMap<u8, u8>, 1>(0) }
#[kani::proof] #[kani::unwind(6)] pub fn c11q_restore_empty_set() { restores_depth::<BTreeSet<u8>, 1>(0) }
#[kani::proof] #[kani::unwind(6)] pub fn c11q_restore_empty_deque() { restores_depth::<VecDeque<bool>, 1>(0) }
#[kani::proof] #[kani::unwind(6)] pub fn c11t_restore_list_1() { restores_depth::<LinkedList<Box<u8>>, 1>(1) }
#[kani::proof] #[kani::unwind(6)] pub fn c11t_restore_map_1() { restores_depth::<BTreeMap<u8, u8>, 2>(1) }
#[kani::proof]
#[kani::unwind(6)]
pub fn c11q_restore_pointers() {
	let d: u32 = kani::any();
	let m: u32 = kani::any();
	kani::assume(d <= m && m < u32::MAX);
	let bytes: [u8; 1] = kani::any();
	let (r, f) = parity_scale_codec::__verif_decode_at_depth::<Box<u8>, _>(&mut &bytes[..], d, m);
	assert!(r.is_ok() == (d < m) && (r.is_err() || f == d), "Box: descend/ascend not balanced or threshold wrong");
	let (r, f) = parity_scale_codec::__verif_decode_at_depth::<Rc<u8>, _>(&mut &bytes[..], d, m);
	assert!(r.is_ok() == (d < m) && (r.is_err() || f == d), "Rc: descend/ascend not balanced or threshold wrong");
	let (r, f) = parity_scale_codec::__verif_decode_at_depth::<Arc<u8>, _>(&mut &bytes[..], d, m);
	assert!(r.is_ok() == (d < m) && (r.is_err() || f == d), "Arc: descend/ascend not balanced or threshold wrong");
}

/// negative twin: "Vec<u8> counts one level" must FAIL (primitive vectors do not descend)
#[kani::proof]
#[kani::unwind(6)]
pub fn c11n_twin_prim_vec_counts() {
	let bytes: [u8; 2] = kani::any();
	let mut i = Pre::count(2, &bytes[..]);
	let r = Vec::<u8>::decode_with_depth_limit(0, &mut i);
	assert!(r.is_err());
	core::mem::forget(r);
}

/// a vector long enough to be decoded in SEVERAL preallocation chunks (3 elements of 8 KiB in memory -- one wire byte each, the rest
/// is a skipped pad -- so 2 per 16 KiB chunk) is still ONE level of nesting: limit 1 accepts, limit 0 rejects
#[cfg(feature = "ext")]
pub mod multi_chunk {
	use super::*;
	pub struct Pad8k(pub [u8; 8191]);
	impl Default for Pad8k { fn default() -> Self { Pad8k([0; 8191]) } }
	#[derive(Decode)]
	pub struct Big8k { pub x: u8, #[codec(skip)] pub pad: Pad8k }
	// (name class `s`: quick-tier harness that needs the allocator stubs -- without assert-and-cut on the reservations CBMC runs out
	// of memory on the element storage; run with -Z stubbing by C11's second run). The THIRD element is missing from the input, so
	// the decode fails inside the second chunk after the first chunk (2 elements) was completed: at that point exactly ONE descend
	// must have been made for the vector, however many chunks were started -- and the same under a real limit of 1: the failure must
	// be the missing data, which a limit of 1 permits to reach (max depth seen by the wrapped input == 1)
	crate::with_stubs!(le_32k, #[kani::unwind(6)] pub fn c11s_multi_chunk_vec_is_one_level() {
		let x: [u8; 2] = kani::any();
		let mut h = HookLog::new(Pre::count(3, &x[..]));
		let r = Vec::<Big8k>::decode(&mut h);
		assert!(r.is_err(), "the third element is missing");
		assert!(h.max_depth == 1 && h.depth == 1 && !h.unbalanced, "a vector decoded in several chunks descended more than once");
		let mut h2 = HookLog::new(Pre::count(3, &x[..]));
		let r2 = Vec::<Big8k>::decode_with_depth_limit(1, &mut h2);
		assert!(r2.is_err());
		assert!(h2.reads == h.reads, "under limit 1 the decode stopped elsewhere than the unlimited decode: the second chunk was charged as a second level");
		core::mem::forget((r, r2));
	});
}

/// a type whose own decoder applies a depth limit to the input it is handed (nested trackers): under an outer limit, siblings of
/// such a type must not accumulate depth -- the inner tracker has to hand every ascend back to the outer one
pub struct Guarded(pub Box<u8>);
impl Decode for Guarded {
	fn decode<I: Input>(input: &mut I) -> Result<Self, parity_scale_codec::Error> { Box::<u8>::decode_with_depth_limit(4, input).map(Guarded) }
}
#[kani::proof]
#[kani::unwind(8)]
pub fn c11q_nested_trackers_siblings_do_not_accumulate() {
	let x: [u8; 4] = kani::any();
	// three Guarded siblings (a box each): the real nesting depth of Vec<Guarded> is 2
	let r = Vec::<Guarded>::decode_with_depth_limit(2, &mut Pre::count(3, &x[..3]));
	assert!(r.is_ok(), "siblings decoded through a nested depth tracker accumulated depth");
	let t = <(Guarded, Guarded, Guarded, Box<u8>)>::decode_with_depth_limit(1, &mut &x[..]);
	assert!(t.is_ok(), "tuple siblings decoded through a nested depth tracker accumulated depth");
	let e = Vec::<Guarded>::decode_with_depth_limit(1, &mut Pre::count(1, &x[..1]));
	assert!(e.is_err(), "limit 1 accepted a box inside a vector");
	core::mem::forget((r, t, e));
}
