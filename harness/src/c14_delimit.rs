//! C14 Encodings are self-delimiting; consume-all entry points are exact.
use crate::{gen::*, io::*, spec::*, sym::Sym};
use alloc::{boxed::Box, collections::*, string::String, vec::Vec};
use parity_scale_codec::{Compact, Decode, DecodeAll, DecodeLimit, Encode, OptionBool};

macro_rules! da_q { ($($n:ident: $t:ty, $l:literal, $u:literal;)*) => { paste::paste! { $(
	#[kani::proof] #[kani::unwind($u)] pub fn [<c14q_all_ $n>]() { h_decode_all::<$t, $l>() } )* } } }
macro_rules! da_t { ($($n:ident: $t:ty, $l:literal, $u:literal;)*) => { paste::paste! { $(
	#[kani::proof] #[kani::unwind($u)] pub fn [<c14t_all_ $n>]() { h_decode_all::<$t, $l>() } )* } } }
crate::fixed_types_q!(da_q);
crate::fixed_types_t!(da_t);
crate::fixed_types_wide!(da_t);

/// decode_all on containers (concrete count prefix inside the slice is symbolic here: bulk path only)
#[kani::proof]
#[kani::unwind(8)]
pub fn c14t_all_vec_u8_any() { h_decode_all::<Vec<u8>, 3>() }

macro_rules! pfx {
	($($name:ident: $t:ty, $c:expr, $n:literal, $u:literal;)*) => {$(
		#[kani::proof] #[kani::unwind($u)] pub fn $name() { h_prefix::<$t, $n>($c) }
	)*};
}
pfx! {
	c14q_pfx_u32: u32, 0, 8, 7; c14q_pfx_u128: u128, 0, 20, 19; c14q_pfx_bool: bool, 0, 4, 4; c14q_pfx_compact_u64: Compact<u64>, 0, 20, 19;
	c14q_pfx_opt_u16: Option<u16>, 0, 8, 6; c14q_pfx_res: Result<u8, u32>, 0, 8, 7; c14q_pfx_tup: (u8, Compact<u32>, bool), 0, 20, 19;
	c14q_pfx_arr_opt: [Option<u8>; 3], 0, 8, 9; c14q_pfx_arr_u32: [u32; 2], 0, 12, 11; c14q_pfx_box: Box<u32>, 0, 8, 7;
	c14q_pfx_compact_u8: Compact<u8>, 0, 20, 19; c14q_pfx_compact_u16: Compact<u16>, 0, 20, 19; c14q_pfx_compact_u32: Compact<u32>, 0, 20, 19; c14q_pfx_tup_c16: (Compact<u16>, bool), 0, 20, 19;
	c14q_pfx_vec_u8_3: Vec<u8>, 3, 8, 7; c14q_pfx_vec_u16_2: Vec<u16>, 2, 8, 8; 
	c14q_pfx_deque_u16_2: VecDeque<u16>, 2, 8, 8; c14q_pfx_duration: core::time::Duration, 0, 16, 15;
	c14t_pfx_vec_u32_2: Vec<u32>, 2, 12, 12;
	c14t_pfx_i64: i64, 0, 12, 11; c14t_pfx_optionbool: OptionBool, 0, 4, 4; c14t_pfx_compact_u128: Compact<u128>, 0, 20, 19; c14t_pfx_nz: core::num::NonZeroU32, 0, 8, 7;
	c14t_pfx_tup18: (u8, u8, u8, u8, u8, u8, u8, u8, u8, u8, u8, u8, u8, u8, u8, u8, u8, bool), 0, 20, 21;
}

macro_rules! pfxc {
	($($name:ident: $t:ty, $c:expr, $n:literal, $u:literal;)*) => {$(
		#[kani::proof] #[kani::unwind($u)] pub fn $name() { h_prefix_cnt::<$t, $n>($c) }
	)*};
}
pfxc! {
	c14q_pfxc_vec_opt_2: Vec<Option<u8>>, 2, 8, 8; c14q_pfxc_vec_bool_3: Vec<bool>, 3, 8, 7; c14q_pfxc_list_2: LinkedList<u8>, 2, 8, 6; c14q_pfxc_vec_tup_2: Vec<(u8, u16)>, 2, 8, 9;
	c14t_pfxc_deque_opt_2: VecDeque<Option<u8>>, 2, 8, 8; c14t_pfxc_vec_arr_2: Vec<[bool; 2]>, 2, 8, 8;
}
/// strings / maps: concrete cut too (std validators / from_iter under a symbolic length are too dear)
fn prefix_fixed<T: Encode + Decode + Sym, const N: usize, const K: usize>(c: usize) {
	let v = T::sym(c);
	let mut buf = Buf::<N>::new();
	v.encode_to(&mut buf);
	assert!(buf.n > K && buf.d[0] == (c as u8) << 2);
	let r = T::decode(&mut Pre::count(c, &buf.d[1..K]));
	assert!(r.is_err(), "a strict prefix of an encoding decoded successfully");
	core::mem::forget((r, v));
}
#[kani::proof] #[kani::unwind(8)] pub fn c14q_pfxf_string_3_k3() { prefix_fixed::<String, 8, 3>(3) }
#[kani::proof] #[kani::unwind(8)] pub fn c14t_pfxf_string_3_k1() { prefix_fixed::<String, 8, 1>(3) }
#[kani::proof] #[kani::unwind(8)] pub fn c14t_pfxf_map_1_k2() { prefix_fixed::<BTreeMap<u8, u8>, 8, 2>(1) }
#[kani::proof] #[kani::unwind(8)] pub fn c14t_pfxf_map_1_k1() { prefix_fixed::<BTreeMap<u8, u8>, 8, 1>(1) }

macro_rules! cat {
	($($name:ident: $a:ty, $b:ty, $c:ty, $cnt:expr, $n:literal, $u:literal;)*) => {$(
		#[kani::proof] #[kani::unwind($u)] pub fn $name() { h_concat::<$a, $b, $c, $n>($cnt) }
	)*};
}
cat! {
	c14q_cat_scalars: u8, u32, bool, 0, 8, 7; c14q_cat_compact: Compact<u32>, Compact<u64>, u8, 0, 20, 19; c14q_cat_opt: Option<u16>, Result<u8, bool>, OptionBool, 0, 8, 7;
	c14q_cat_vec: Vec<u8>, u16, Vec<bool>, 2, 12, 8;
	c14t_cat_arr: [u16; 2], [bool; 2], [Option<u8>; 1], 0, 12, 8;
}

/// elements that are zero-sized in memory but one byte on the wire: prefixes of an array of them fail, decode_all is exact
#[cfg(feature = "ext")]
pub mod zst_with_encoding {
	use super::*;
	#[derive(Encode, Decode, Clone, Copy)]
	pub enum OneV { #[codec(index = 5)] Only }
	#[kani::proof]
	#[kani::unwind(8)]
	pub fn c14q_array_of_zero_sized_elems_with_encoding() {
		let a = [OneV::Only; 3];
		let mut b = Buf::<8>::new(); a.encode_to(&mut b);
		assert!(b.n == 3);
		let k: usize = kani::any();
		kani::assume(k < 3);
		assert!(<[OneV; 3]>::decode(&mut &b.d[..k]).is_err(), "a strict prefix of an array encoding decoded successfully");
		assert!(<[OneV; 3]>::decode_all(&mut &b.d[..3]).is_ok(), "decode_all rejected an exact array encoding");
		assert!(<[OneV; 3]>::decode_all(&mut &b.d[..4]).is_err(), "decode_all accepted trailing bytes");
		let junk: u8 = kani::any();
		let bad = [5u8, junk, 5u8];
		assert!(<[OneV; 3]>::decode(&mut &bad[..]).is_ok() == (junk == 5), "an invalid element byte inside the array was accepted");
		let cat = [5u8, 5u8, 0xab];
		let mut inp = &cat[..];
		let r = <[OneV; 2]>::decode(&mut inp);
		assert!(r.is_ok() && u8::decode(&mut inp) == Ok(0xab) && inp.is_empty(), "value after an array of zero-sized elements decoded from the wrong offset");
		assert!(Box::<[OneV; 2]>::decode_all(&mut &cat[..2]).is_ok());
	}
}

/// sequences, lists, sets and maps whose ITEMS have an empty encoding: the value is just its count byte -- it must decode exactly
/// (no byte per item may be demanded), alone, at the end of a concatenation, and through decode_all. Concrete count 3 per query.
macro_rules! empty_items { ($($name:ident: $t:ty, $n:expr;)*) => {$(
	#[kani::proof]
	#[kani::unwind(8)]
	pub fn $name() {
		let r = <$t>::decode(&mut Pre::count(3, &[][..]));
		assert!(r.is_ok(), "a container of empty-encoding items does not decode from its exact encoding");
		if let Ok(v) = &r { assert!(v.len() == $n); }
		let x: u8 = kani::any();
		let xs = [x];
		let mut tail = Pre::count(3, &xs[..]);
		let r2 = <$t>::decode(&mut tail);
		assert!(r2.is_ok() && tail.rest.len() == 1, "a container of empty-encoding items consumed bytes that are not its own");
		let enc = [3u8 << 2];
		assert!(<$t>::decode_all(&mut &enc[..]).is_ok(), "decode_all rejects the exact encoding of a container of empty-encoding items");
		core::mem::forget((r, r2));
	}
)*}; }
empty_items! {
	c14q_empty_items_vec: Vec<()>, 3; c14q_empty_items_deque: alloc::collections::VecDeque<core::marker::PhantomData<u32>>, 3; c14q_empty_items_list: alloc::collections::LinkedList<()>, 3;
	c14q_empty_items_list_arr0: alloc::collections::LinkedList<[u8; 0]>, 3; c14q_empty_items_heap: alloc::collections::BinaryHeap<()>, 3;
	c14q_empty_items_set: alloc::collections::BTreeSet<()>, 1; c14q_empty_items_map: alloc::collections::BTreeMap<(), ()>, 1;
}

/// negative twin: "a prefix of length n-0 fails" (i.e. the full encoding) must FAIL
#[kani::proof]
#[kani::unwind(6)]
pub fn c14n_twin_full_encoding_fails() {
	let v: u16 = kani::any();
	let mut b = Buf::<4>::new();
	v.encode_to(&mut b);
	let k: usize = kani::any();
	kani::assume(k <= b.n);
	let mut inp = &b.d[..k];
	assert!(u16::decode(&mut inp).is_err());
}

// ---- std only: the same property through IoReader on streams that end anywhere (short-chunk reader)
#[cfg(feature = "cfg_std")]
pub mod ioreader {
	use crate::gen::iord::h_ioreader;
	use parity_scale_codec::Compact;
	#[kani::proof] #[kani::unwind(14)] pub fn c14t_ioreader_tuple() { h_ioreader::<(u8, Option<u16>), 4>() }
	#[kani::proof] #[kani::unwind(14)] pub fn c14q_ioreader_opt_u16() { h_ioreader::<Option<u16>, 4>() }
	#[kani::proof] #[kani::unwind(14)] pub fn c14q_ioreader_arr_u16() { h_ioreader::<[u16; 2], 5>() }
	#[kani::proof] #[kani::unwind(14)] pub fn c14q_ioreader_arr_u8() { h_ioreader::<[u8; 4], 5>() }
	#[kani::proof] #[kani::unwind(14)] pub fn c14t_ioreader_u64() { h_ioreader::<u64, 8>() }
	#[kani::proof] #[kani::unwind(14)] pub fn c14t_ioreader_arr_opt() { h_ioreader::<[Option<bool>; 2], 4>() }
}
