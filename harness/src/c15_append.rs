//! C15 Appending to an encoded sequence equals re-encoding the whole.
use crate::{gen::*, io::*, spec::*, sym::Sym};
use alloc::{boxed::Box, collections::VecDeque, string::String, vec::Vec};
use parity_scale_codec::{Compact, Decode, Encode, EncodeAppend};

/// ExactSizeIterator of `()` with a *symbolic* length; `next` must never be called when the
/// combined count is unrepresentable (the operation has to fail before touching the items).
pub struct SymIter { pub n: usize, pub yielded: usize, pub must_not_iterate: bool }
impl Iterator for SymIter {
	type Item = ();
	fn next(&mut self) -> Option<()> {
		assert!(!self.must_not_iterate, "items were consumed although the combined count cannot be represented");
		if self.yielded < self.n { self.yielded += 1; Some(()) } else { None }
	}
	fn size_hint(&self) -> (usize, Option<usize>) { (self.n - self.yielded, Some(self.n - self.yielded)) }
	/// the items are `()`: consuming them has no observable effect on the output (a unit encodes to nothing), so the
	/// n-fold loop is elided for large n -- which makes EVERY batch size reachable, incl. batches that skip a prefix width class
	fn fold<B, F: FnMut(B, ()) -> B>(mut self, init: B, mut f: F) -> B {
		assert!(!self.must_not_iterate, "items were consumed although the combined count cannot be represented");
		if self.n - self.yielded > 3 { return init }
		let mut acc = init;
		while let Some(x) = self.next() { acc = f(acc, x); }
		acc
	}
}
impl ExactSizeIterator for SymIter {}

fn vec_from(b: &[u8]) -> Vec<u8> {
	// fixed capacity: a symbolic capacity is the single most expensive thing for the solver
	let mut v: Vec<u8> = Vec::with_capacity(24);
	let mut i = 0;
	while i < b.len() { v.push(b[i]); i += 1; }
	v
}

/// Prefix arithmetic for EVERY old count in u32 and every batch size (zero-sized items make the
/// encoded vector just its count prefix): Ok(out) => old+n <= u32::MAX and out == compact(old+n);
/// Err => old+n > u32::MAX. Covers 63->64, 2^14-1->2^14, 2^30-1->2^30, overflow at 2^32 and
/// usize->u32 truncation of the batch size.
fn append_zst<T: EncodeAppend<Item = ()>>() {
	let old: u32 = kani::any();
	let (p, k) = compact5(old);
	let v = vec_from(&p[..k]);
	let n: usize = kani::any();
	let total = old as u128 + n as u128;
	// EVERY batch size in usize (the iteration over more than 3 unit items is elided by SymIter::fold, see there)
	let it = SymIter { n, yielded: 0, must_not_iterate: total > u32::MAX as u128 };
	let r = T::append_or_new(v, it);
	match &r {
		Ok(out) => {
			assert!(total <= u32::MAX as u128, "append returned Ok although the combined count cannot be represented");
			let (e, ek) = compact5(total as u32);
			assert!(out.len() == ek, "count prefix after append has the wrong width");
			let mut i = 0;
			while i < ek { assert!(out[i] == e[i], "count prefix after append is not the compact form of old+new"); i += 1; }
		},
		Err(_) => assert!(total > u32::MAX as u128, "append failed although the combined count is representable"),
	}
	kani::cover!(r.is_ok() && old == 63 && n == 1, "reach: 63 -> 64 widening");
	kani::cover!(r.is_ok() && old == (1 << 14) - 1 && n == 1, "reach: 2^14-1 -> 2^14 widening");
	kani::cover!(r.is_ok() && old == (1 << 30) - 1 && n == 1, "reach: 2^30-1 -> 2^30 widening");
	kani::cover!(r.is_err() && n <= 3, "reach: overflow at 2^32");
	kani::cover!(r.is_err() && n >= (1usize << 32), "reach: batch size beyond u32");
	kani::cover!(r.is_ok() && old < 64 && n > 20000, "reach: one append skips a prefix width class (1 -> 4 bytes)");
	kani::cover!(r.is_ok() && old < 64 && total >= (1u128 << 30), "reach: 1 -> 5 bytes");
	core::mem::forget(r);
}
#[kani::proof]
#[kani::unwind(7)]
pub fn c15q_zst_every_count_vec() { append_zst::<Vec<()>>() }
#[kani::proof]
#[kani::unwind(7)]
pub fn c15q_zst_every_count_deque() { append_zst::<VecDeque<()>>() }

/// empty input yields the items' encoding, also for a huge/unrepresentable batch size
#[kani::proof]
#[kani::unwind(7)]
pub fn c15q_zst_empty_input() {
	let n: usize = kani::any();
	kani::assume(n <= 3 || n > u32::MAX as usize);
	let it = SymIter { n, yielded: 0, must_not_iterate: n > u32::MAX as usize };
	let r = <Vec<()> as EncodeAppend>::append_or_new(Vec::new(), it);
	match &r {
		Ok(out) => { assert!(n <= 3); let (e, ek) = compact5(n as u32); assert!(out.len() == ek && out[0] == e[0], "append to empty input is not the encoding of the items"); },
		Err(_) => assert!(n > u32::MAX as usize, "append to empty input failed for a representable count"),
	}
	core::mem::forget(r);
}

/// input not starting with a valid count: Err exactly when the model's Compact<u32> decoder rejects
#[kani::proof]
#[kani::unwind(8)]
pub fn c15q_garbage_prefix() {
	let bytes: [u8; 5] = kani::any();
	let len: usize = kani::any();
	kani::assume(len >= 1 && len <= 5);
	let v = vec_from(&bytes[..len]);
	let m = compact_decode(&bytes[..len], 32);
	let it = SymIter { n: 0, yielded: 0, must_not_iterate: false };
	let r = <Vec<()> as EncodeAppend>::append_or_new(v, it);
	match (&r, m) {
		(Ok(out), Some((n, k))) => {
			// zero items appended: prefix re-written to the same count, rest untouched
			let (e, ek) = compact5(n as u32);
			assert!(ek == k && out.len() == len);
			let mut i = 0;
			while i < len { assert!(out[i] == if i < k { e[i] } else { bytes[i] }, "appending nothing changed the bytes"); i += 1; }
		},
		(Err(_), None) => {},
		(Ok(_), None) => assert!(false, "input without a valid count prefix was accepted"),
		(Err(_), Some(_)) => assert!(false, "input with a valid count prefix was rejected"),
	}
	core::mem::forget(r);
}

/// payload preservation: old concrete count of symbolic items + batch of k symbolic items
/// == model encoding of the concatenation
fn append_payload<T: Encode + Spec + Sym + Clone, C: EncodeAppend<Item = T>, const OLD: usize, const K: usize, const N: usize>() {
	let old: [T; OLD] = core::array::from_fn(|_| T::sym(1));
	let add: [T; K] = core::array::from_fn(|_| T::sym(1));
	let mut start = Buf::<N>::new();
	put_compact(OLD as u128, &mut start);
	let mut i = 0;
	while i < OLD { old[i].spec_enc(&mut start); i += 1; }
	let v = vec_from(start.bytes());
	let r = C::append_or_new(v, add.iter());
	let mut exp = Buf::<N>::new();
	put_compact((OLD + K) as u128, &mut exp);
	let mut i = 0;
	while i < OLD { old[i].spec_enc(&mut exp); i += 1; }
	let mut i = 0;
	while i < K { add[i].spec_enc(&mut exp); i += 1; }
	match &r {
		Ok(out) => assert!(same_slice(out, exp.bytes()), "append result differs from the encoding of the concatenated sequence"),
		Err(_) => assert!(false, "append failed on a valid encoded sequence"),
	}
	core::mem::forget((r, old, add));
}
macro_rules! pay {
	($($name:ident: $t:ty, $c:ty, $old:literal, $k:literal, $n:literal, $u:literal;)*) => {$(
		#[kani::proof] #[kani::unwind($u)] pub fn $name() { append_payload::<$t, $c, $old, $k, $n>() }
	)*};
}
pay! {
	c15q_pay_u8_2_2: u8, Vec<u8>, 2, 2, 8, 10; c15q_pay_u8_0_2: u8, Vec<u8>, 0, 2, 8, 10; c15q_pay_u8_2_0: u8, Vec<u8>, 2, 0, 8, 10;
	c15q_pay_u32_1_2: u32, Vec<u32>, 1, 2, 16, 18; c15q_pay_u32_deque: u32, VecDeque<u32>, 2, 1, 16, 18;
	c15q_pay_opt_1_1: Option<u16>, Vec<Option<u16>>, 1, 1, 8, 10; c15q_pay_vec_1_1: Vec<u8>, Vec<Vec<u8>>, 1, 1, 8, 10;
	c15t_pay_string_1_1: String, Vec<String>, 1, 1, 8, 10; c15t_pay_u16_deque_2_2: u16, VecDeque<u16>, 2, 2, 12, 14; c15t_pay_u8_1_1: u8, Vec<u8>, 1, 1, 8, 10;
	c15t_pay_compact: Compact<u32>, Vec<Compact<u32>>, 1, 1, 20, 22;
}

/// 63 -> 64 with a 63-byte symbolic payload: the prefix widens and the payload moves intact
#[kani::proof]
#[kani::unwind(70)]
pub fn c15t_pay_63_to_64() {
	let old: [u8; 63] = kani::any();
	let add: [u8; 2] = kani::any();
	let mut v: Vec<u8> = Vec::with_capacity(80);
	v.push(63 << 2);
	let mut i = 0;
	while i < 63 { v.push(old[i]); i += 1; }
	let r = <Vec<u8> as EncodeAppend>::append_or_new(v, add.iter());
	match &r {
		Ok(out) => {
			assert!(out.len() == 2 + 65 && out[0] == ((65u16 << 2) | 1) as u8 && out[1] == ((65u16 << 2) >> 8) as u8, "widened prefix is wrong");
			let j: usize = kani::any();
			kani::assume(j < 63);
			assert!(out[2 + j] == old[j], "payload changed while the prefix widened");
			assert!(out[65] == add[0] && out[66] == add[1], "appended items are wrong");
		},
		Err(_) => assert!(false),
	}
	core::mem::forget(r);
}

/// EncodeLike item forms: &T, Box<T>, &str for String
#[kani::proof]
#[kani::unwind(10)]
pub fn c15q_encode_like_items() {
	let x: [u16; 2] = kani::any();
	let start = alloc::vec![1u8 << 2, 7, 0];
	let a = <Vec<u16> as EncodeAppend>::append_or_new(start.clone(), x.iter());
	let b = <Vec<u16> as EncodeAppend>::append_or_new(start.clone(), [Box::new(x[0]), Box::new(x[1])]);
	let c = <Vec<u16> as EncodeAppend>::append_or_new(start, x);
	let mut exp = Buf::<8>::new();
	put_compact(3, &mut exp); 7u16.spec_enc(&mut exp); x[0].spec_enc(&mut exp); x[1].spec_enc(&mut exp);
	match (&a, &b, &c) {
		(Ok(a), Ok(b), Ok(c)) => assert!(same_slice(a, exp.bytes()) && same_slice(b, exp.bytes()) && same_slice(c, exp.bytes()), "EncodeLike item forms append differently"),
		_ => assert!(false),
	}
	let ch: u8 = kani::any(); kani::assume(ch < 0x80);
	let s = [ch];
	let st = core::str::from_utf8(&s).unwrap();
	let r = <Vec<String> as EncodeAppend>::append_or_new(Vec::new(), [st]);
	match &r { Ok(o) => assert!(o.len() == 3 && o[0] == 4 && o[1] == 4 && o[2] == ch, "&str item appended differently from String"), Err(_) => assert!(false) }
	core::mem::forget((a, b, c, r));
}

/// items that are zero-sized IN MEMORY but have a non-empty encoding (a fieldless one-variant enum encodes its index byte)
#[cfg(feature = "ext")]
#[derive(Encode, Clone, Copy)]
pub enum OneVariant { #[codec(index = 9)] Only }
#[cfg(feature = "ext")]
#[kani::proof]
#[kani::unwind(10)]
pub fn c15q_zero_sized_items_with_encoding() {
	let start = alloc::vec![1u8 << 2, 9];
	let r = <Vec<OneVariant> as EncodeAppend>::append_or_new(start, [OneVariant::Only, OneVariant::Only]);
	match &r { Ok(o) => assert!(o.len() == 4 && o[0] == 12 && o[1] == 9 && o[2] == 9 && o[3] == 9, "zero-sized items with a non-empty encoding were not appended"), Err(_) => assert!(false) }
	let r2 = <VecDeque<OneVariant> as EncodeAppend>::append_or_new(Vec::new(), [OneVariant::Only]);
	match &r2 { Ok(o) => assert!(o.len() == 2 && o[0] == 4 && o[1] == 9), Err(_) => assert!(false) }
	core::mem::forget((r, r2));
}

/// histories: two successive appends == one append of the concatenation (inductive step); first batch size concrete
fn two_appends<const K1: usize>() {
	let x: [u8; 4] = kani::any();
	let r1 = <Vec<u8> as EncodeAppend>::append_or_new(Vec::new(), x[..K1].iter());
	let r12 = match r1 { Ok(v) => <Vec<u8> as EncodeAppend>::append_or_new(v, x[K1..K1 + 2].iter()), Err(e) => Err(e) };
	let once = <Vec<u8> as EncodeAppend>::append_or_new(Vec::new(), x[..K1 + 2].iter());
	match (&r12, &once) {
		(Ok(a), Ok(b)) => assert!(same_slice(a, b), "two appends differ from one append of the concatenation"),
		_ => assert!(false),
	}
	if let Ok(a) = &r12 {
		let mut e = Buf::<8>::new();
		put_compact((K1 + 2) as u128, &mut e);
		let mut i = 0;
		while i < K1 + 2 { e.put(x[i]); i += 1; }
		assert!(same_slice(a, e.bytes()), "appended sequence differs from encode() of the whole");
	}
	core::mem::forget((r12, once));
}
#[kani::proof] #[kani::unwind(10)] pub fn c15q_two_appends_k0() { two_appends::<0>() }
#[kani::proof] #[kani::unwind(10)] pub fn c15q_two_appends_k1() { two_appends::<1>() }
#[kani::proof] #[kani::unwind(10)] pub fn c15t_two_appends_k2() { two_appends::<2>() }

/// negative twin: "the prefix never changes width" must FAIL
#[kani::proof]
#[kani::unwind(7)]
pub fn c15n_twin_prefix_width_constant() {
	let old: u32 = kani::any();
	let (p, k) = compact5(old);
	let v = vec_from(&p[..k]);
	let it = SymIter { n: 1, yielded: 0, must_not_iterate: false };
	if let Ok(out) = <Vec<()> as EncodeAppend>::append_or_new(v, it) {
		assert!(out.len() == k);
	}
}
