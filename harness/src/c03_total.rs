//! C03 Decoder accepts exactly the SCALE language and is total on any bytes.
//! Real `Decode::decode` vs. the reference decoder on the *same symbolic bytes*: same
//! accept/reject, same value, same consumed length. Totality = no failed CBMC check (panic,
//! unreachable!, overflow, OOB, invalid free) and satisfied unwinding assertions.
use crate::{gen::*, io::*, spec::*};
use alloc::{borrow::Cow, boxed::Box, collections::*, rc::Rc, string::String, sync::Arc, vec::Vec};
use core::{marker::PhantomData, num::*, ops::{Range, RangeInclusive}, time::Duration};
use parity_scale_codec::{Compact, Decode, Encode, OptionBool};

macro_rules! dec {
	($($name:ident: $t:ty, $l:literal, $u:literal;)*) => {$(
		#[kani::proof]
		#[kani::unwind($u)]
		pub fn $name() { h_dec::<$t, $l>() }
	)*};
}
// fixed-shape types: ALL byte strings of symbolic length <= size+1
dec! {
	c03q_u8: u8, 2, 4; c03q_u16: u16, 3, 5; c03q_u32: u32, 5, 7; c03q_u64: u64, 9, 11; c03q_u128: u128, 17, 19;
	c03q_i8: i8, 2, 4; c03q_i16: i16, 3, 5; c03q_i32: i32, 5, 7; c03q_i64: i64, 9, 11; c03q_i128: i128, 17, 19;
	c03q_f32: f32, 5, 7; c03q_f64: f64, 9, 11; c03q_bool: bool, 2, 4; c03q_unit: (), 1, 3; c03q_phantom: PhantomData<u32>, 1, 3;
	c03q_optionbool: OptionBool, 2, 4; c03q_duration: Duration, 13, 15;
	c03q_nz_u8: NonZeroU8, 2, 4; c03q_nz_u16: NonZeroU16, 3, 5; c03q_nz_u32: NonZeroU32, 5, 7; c03q_nz_u64: NonZeroU64, 9, 11; c03q_nz_u128: NonZeroU128, 17, 19;
	c03q_nz_i8: NonZeroI8, 2, 4; c03q_nz_i16: NonZeroI16, 3, 5; c03q_nz_i32: NonZeroI32, 5, 7; c03q_nz_i64: NonZeroI64, 9, 11; c03q_nz_i128: NonZeroI128, 17, 19;
	c03q_opt_u32: Option<u32>, 6, 8; c03q_opt_opt_bool: Option<Option<bool>>, 4, 6; c03q_res_u8_u16: Result<u8, u16>, 4, 6;
	c03q_res_opt_compact: Result<Option<u16>, Compact<u32>>, 7, 19; c03q_compact_u64: Compact<u64>, 10, 19; c03q_arr_nz_u8_3: [NonZeroU8; 3], 4, 6; c03q_arr_nz_u32_2: [NonZeroU32; 2], 9, 11;
	c03q_arr_optionbool_2: [OptionBool; 2], 3, 5; c03q_opt_nz: Option<NonZeroU16>, 4, 6;
	c03q_tup1: (u16,), 3, 5; c03q_tup2: (u8, bool), 3, 5; c03q_tup3: (u8, Compact<u16>, bool), 7, 19; c03q_tup_optbool: (OptionBool, Option<bool>), 4, 6;
	c03q_tup18: (u8, u8, u8, u8, u8, u8, u8, u8, u8, u8, u8, u8, u8, u8, u8, u8, u8, bool), 19, 21;
	c03q_range: Range<u16>, 5, 7; c03q_range_incl: RangeInclusive<u16>, 5, 7;
	c03q_arr_u8_0: [u8; 0], 1, 3; c03q_arr_u8_4: [u8; 4], 5, 7; c03q_arr_u32_2: [u32; 2], 9, 11; c03q_arr_bool_3: [bool; 3], 4, 6;
	c03q_arr_opt_3: [Option<u8>; 3], 7, 9; c03q_arr_arr: [[u8; 2]; 2], 5, 7; c03q_arr_arr_bool: [[bool; 2]; 2], 5, 7;
	c03q_box_u32: Box<u32>, 5, 7; c03q_rc_u32: Rc<u32>, 5, 7; c03q_arc_u32: Arc<u32>, 5, 7; c03q_box_opt: Box<Option<bool>>, 3, 5;
	c03q_box_arr: Box<[bool; 2]>, 3, 5; c03q_opt_box: Option<Box<bool>>, 3, 5;
	c03t_compact_u128: Compact<u128>, 18, 19; c03t_arr_nz_i64_1: [NonZeroI64; 1], 9, 11;
	c03t_arr_i128_1: [i128; 1], 17, 19; c03t_arr_f64_2: [f64; 2], 17, 19; c03t_arr_i16_3: [i16; 3], 7, 9; c03t_arr_box: [Box<bool>; 2], 3, 5;
	c03t_res_res: Result<Result<bool, u8>, Option<u8>>, 4, 6; c03t_tup4: (bool, u16, Option<u8>, OptionBool), 7, 9;
	c03t_arc_arr: Arc<[Option<bool>; 2]>, 5, 7; c03t_duration_opt: Option<Duration>, 14, 16;
}

macro_rules! cnt {
	($($name:ident: $t:ty, $c:expr, $l:literal, $n:literal, $sym:literal, $canon:literal, $u:literal;)*) => {$(
		#[kani::proof]
		#[kani::unwind($u)]
		pub fn $name() { h_dec_cnt::<$t, $l, $n>($c, $sym, $canon) }
	)*};
}
// containers: concrete count (served as concrete prefix), symbolic payload
cnt! {
	c03q_vec_u8_0: Vec<u8>, 0, 1, 8, true, true, 6; c03q_vec_u8_1: Vec<u8>, 1, 2, 8, true, true, 6; c03q_vec_u8_3: Vec<u8>, 3, 4, 8, true, true, 7;
	c03q_vec_u16_2: Vec<u16>, 2, 5, 8, true, true, 8; c03q_vec_u32_2: Vec<u32>, 2, 9, 12, true, true, 12; c03q_vec_i64_1: Vec<i64>, 1, 9, 12, true, true, 12;
	c03q_vec_f32_1: Vec<f32>, 1, 5, 8, true, true, 8; c03q_vec_u128_1: Vec<u128>, 1, 17, 20, true, true, 20;
	c03q_vec_bool_2: Vec<bool>, 2, 3, 8, true, true, 6; c03q_vec_opt_2: Vec<Option<u8>>, 2, 5, 8, true, true, 8; c03q_vec_tup_2: Vec<(u8, bool)>, 2, 5, 8, true, true, 8;
	c03q_vec_nz_u16_2: Vec<NonZeroU16>, 2, 5, 8, true, true, 8; c03q_vec_nz_u8_3: Vec<NonZeroU8>, 3, 4, 8, true, true, 7; c03q_deque_nz_u32_1: VecDeque<NonZeroU32>, 1, 5, 8, true, true, 8;
	c03q_vec_unit_3: Vec<()>, 3, 1, 4, true, true, 6; c03q_vec_optbool_2: Vec<OptionBool>, 2, 3, 8, true, true, 6;
	c03q_deque_u16_2: VecDeque<u16>, 2, 5, 8, true, true, 8; c03q_deque_bool_2: VecDeque<bool>, 2, 3, 8, true, true, 6;
	c03q_list_u8_2: LinkedList<u8>, 2, 3, 8, true, true, 6; c03q_list_bool_1: LinkedList<bool>, 1, 2, 8, true, true, 6;
	c03q_heap_u8_2: BinaryHeap<u8>, 2, 2, 8, false, false, 8;
	c03q_string_3: String, 3, 3, 8, false, true, 8; c03q_string_3_short: String, 3, 2, 8, false, true, 8; c03q_string_2: String, 2, 2, 8, false, true, 8;
	c03q_map_1: BTreeMap<u8, u8>, 1, 2, 8, false, false, 6; c03q_map_1_short: BTreeMap<u8, u8>, 1, 1, 8, false, false, 6;
	c03q_set_1: BTreeSet<u8>, 1, 1, 8, false, true, 6;
	c03q_opt_vec_inner: Vec<Option<bool>>, 3, 7, 8, true, true, 10;
	c03t_vec_opt_3: Vec<Option<u8>>, 3, 7, 12, true, true, 10; c03t_vec_u32_3: Vec<u32>, 3, 13, 16, true, true, 16; c03t_vec_i16_3: Vec<i16>, 3, 7, 12, true, true, 10;
	c03t_vec_res_2: Vec<Result<bool, u8>>, 2, 5, 8, true, true, 8; c03t_vec_arr_2: Vec<[bool; 2]>, 2, 5, 8, true, true, 8;
	c03t_string_4: String, 4, 4, 8, false, true, 8; c03t_string_1: String, 1, 1, 8, false, true, 8;
	c03t_map_2: BTreeMap<u8, u8>, 2, 4, 8, false, false, 8; c03t_map_2_short: BTreeMap<u8, u8>, 2, 3, 8, false, false, 8; c03t_set_2: BTreeSet<u8>, 2, 2, 8, false, false, 8;
	c03t_list_opt_2: LinkedList<Option<u8>>, 2, 5, 8, true, true, 8; c03t_deque_u32_2: VecDeque<u32>, 2, 9, 12, true, true, 12;
	c03t_heap_u8_3: BinaryHeap<u8>, 3, 3, 8, false, false, 8;
}

macro_rules! rej {
	($($name:ident: $t:ty, $c:expr, $l:literal, $unk:literal, $u:literal;)*) => {$(
		#[kani::proof]
		#[kani::unwind($u)]
		pub fn $name() { h_reject_cnt::<$t, $l>($c, $unk) }
	)*};
}
// hostile counts: promise more than is present -> must be rejected, never panic.
// Non-Vec containers take the count from a single-byte prefix (63 is the largest); Vec element
// types additionally get huge concrete counts through the public decode_vec_with_len.
rej! {
	c03q_string_63: String, 63, 4, false, 8; c03q_list_63: LinkedList<u8>, 63, 3, false, 8; c03q_vec_bool_63: Vec<bool>, 63, 4, false, 8;
	c03q_deque_63: VecDeque<u16>, 63, 4, false, 8; c03q_heap_63: BinaryHeap<u8>, 63, 3, false, 8;
	c03t_unk_list_63: LinkedList<u8>, 63, 3, true, 8; c03t_unk_string_63: String, 63, 3, true, 8; c03t_unk_vec_opt_63: Vec<Option<u8>>, 63, 4, true, 8;
}
// maps/sets: concrete payload length too (a symbolic number of collected items drags std's sort in)
#[kani::proof]
#[kani::unwind(8)]
pub fn c03t_map_63_l3() { h_reject_cnt_l::<BTreeMap<u8, u8>, 3>(63, false, false) }
#[kani::proof]
#[kani::unwind(8)]
pub fn c03t_map_63_l0() { h_reject_cnt_l::<BTreeMap<u8, u8>, 0>(63, false, false) }
#[kani::proof]
#[kani::unwind(8)]
pub fn c03t_set_63_l2() { h_reject_cnt_l::<BTreeSet<u8>, 2>(63, false, false) }
macro_rules! rejv {
	($($name:ident: $t:ty, $c:expr, $l:literal, $unk:literal, $u:literal;)*) => {$(
		#[kani::proof]
		#[kani::unwind($u)]
		pub fn $name() { h_reject_vec_len::<$t, $l>($c, $unk) }
	)*};
}
rejv! {
	c03q_vec_u8_max: u8, u32::MAX as usize, 4, false, 8; c03q_vec_u32_2p30: u32, 1 << 30, 8, false, 12; c03q_vec_opt_max: Option<u8>, u32::MAX as usize, 4, false, 8;
	c03q_vec_bool_2p14: bool, 1 << 14, 4, false, 8; c03q_vec_u64_usizemax: u64, usize::MAX, 9, false, 12; c03q_vec_u16_16384: u16, 16384, 6, false, 8;
	c03t_vec_u128_max: u128, u32::MAX as usize, 4, false, 8; c03t_vec_tup_2p30: (u8, bool), 1 << 30, 4, false, 8;
	c03t_unk_vec_opt_max: Option<u8>, u32::MAX as usize, 4, true, 8; c03t_unk_vec_u8_max: u8, u32::MAX as usize, 4, true, 8;
	c03t_unk_vec_u64_usizemax: u64, usize::MAX, 9, true, 12;
}

macro_rules! cnt_unk {
	($($name:ident: $t:ty, $c:expr, $l:literal, $u:literal;)*) => {$(
		#[kani::proof]
		#[kani::unwind($u)]
		pub fn $name() { h_dec_cnt_unk::<$t, $l>($c) }
	)*};
}
// the same over an input that cannot report its remaining length (the guard before the bulk read is skipped)
cnt_unk! {
	c03q_unk_vec_u8_3: Vec<u8>, 3, 4, 7; c03q_unk_vec_opt_2: Vec<Option<u8>>, 2, 5, 8; c03q_unk_vec_u16_2: Vec<u16>, 2, 5, 8;
}

// nested element-path sequences (`Vec<Vec<u8>>`, `Vec<String>`): the inner counts are payload, hence symbolic; tried at 3-4
// payload bytes: CBMC runs out of memory (12 GB) -- outside the bound (rule R1 corollary). C09 covers the hostile-inner-count
// rejection path, C01/C02 the honest values.

/// symbolic count prefix on the bulk path (tolerated there): ALL strings <= L bytes as Vec<u8>/Vec<u16>.
/// Oracle written without building a model vector: count = model compact prefix; accept iff
/// count*size bytes follow; elements are the little-endian payload.
macro_rules! any_prefix {
	($name:ident, $t:ty, $w:literal, $l:literal, $u:literal, $inp:ident) => {
		#[kani::proof]
		#[kani::unwind($u)]
		pub fn $name() {
			let bytes: [u8; $l] = kani::any();
			let len: usize = kani::any();
			kani::assume(len <= $l);
			let (r, used) = $inp!(bytes, len, $t);
			let m = compact_decode(&bytes[..len], 32);
			match (&r, m) {
				(Ok(v), Some((n, k))) => {
					let n = n as usize;
					assert!(len - k >= n * $w, "accepted a count that promises more data than is present");
					assert!(v.len() == n && used == k + n * $w, "length/consumption differ from the model");
					let mut i = 0;
					while i < n {
						let mut x: u64 = 0;
						let mut b = 0;
						while b < $w { x |= (bytes[k + i * $w + b] as u64) << (8 * b); b += 1; }
						assert!(v[i] as u64 == x, "element differs from the little-endian payload");
						i += 1;
					}
				},
				(Err(_), Some((n, k))) => assert!(len - k < (n as usize) * $w, "rejected a well-formed sequence"),
				(Ok(_), None) => assert!(false, "accepted a malformed count prefix"),
				(Err(_), None) => {},
			}
			kani::cover!(r.is_ok(), "reach: accepted");
			kani::cover!(r.is_err() && m.is_some(), "info: count promises too much");
			core::mem::forget(r);
		}
	};
}
macro_rules! via_slice { ($b:ident, $l:ident, $t:ty) => {{ let mut s = &$b[..$l]; let r = Vec::<$t>::decode(&mut s); (r, $l - s.len()) }}; }
macro_rules! via_unk { ($b:ident, $l:ident, $t:ty) => {{ let mut s = Unk(&$b[..$l]); let r = Vec::<$t>::decode(&mut s); (r, $l - s.0.len()) }}; }
any_prefix!(c03q_vec_u8_any_prefix, u8, 1, 5, 8, via_slice);
any_prefix!(c03t_vec_u16_any_prefix, u16, 2, 6, 9, via_slice);
any_prefix!(c03t_vec_u8_any_prefix_unk, u8, 1, 4, 7, via_unk);

/// negative twin: model that accepts tag 2 for bool must FAIL
#[kani::proof]
#[kani::unwind(4)]
pub fn c03n_twin_bool_tag2() {
	let b: u8 = kani::any();
	let r = bool::decode(&mut &[b][..]);
	assert!(r.is_ok() == (b <= 2));
}
