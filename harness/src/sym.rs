//! Symbolic value construction: structure concrete (rule R1), content symbolic.
use alloc::{boxed::Box, collections::*, rc::Rc, string::String, sync::Arc, vec::Vec};
use parity_scale_codec::{Compact, OptionBool};

/// `sym(c)`: an arbitrary value whose outermost container (if any) has exactly `c` elements;
/// inner containers get `c.min(1)`... see individual impls. Scalars ignore `c`.
pub trait Sym: Sized {
	fn sym(c: usize) -> Self;
}
macro_rules! sym_any { ($($t:ty),*) => { $( impl Sym for $t { fn sym(_c: usize) -> Self { kani::any() } } )* } }
sym_any!(u8, u16, u32, u64, u128, i8, i16, i32, i64, i128, bool, (), f32, f64);
use core::num::*;
sym_any!(NonZeroU8, NonZeroU16, NonZeroU32, NonZeroU64, NonZeroU128, NonZeroI8, NonZeroI16, NonZeroI32, NonZeroI64, NonZeroI128);
macro_rules! sym_compact { ($($t:ty),*) => { $( impl Sym for Compact<$t> { fn sym(_c: usize) -> Self { Compact(kani::any()) } } )* } }
sym_compact!(u8, u16, u32, u64, u128, ());
impl Sym for OptionBool {
	fn sym(_c: usize) -> Self {
		let t: u8 = kani::any();
		OptionBool(match t % 3 { 0 => None, 1 => Some(true), _ => Some(false) })
	}
}
impl<T> Sym for core::marker::PhantomData<T> { fn sym(_c: usize) -> Self { core::marker::PhantomData } }
impl<T: Sym> Sym for Option<T> {
	fn sym(c: usize) -> Self { if kani::any() { Some(T::sym(c)) } else { None } }
}
impl<T: Sym, E: Sym> Sym for Result<T, E> {
	fn sym(c: usize) -> Self { if kani::any() { Ok(T::sym(c)) } else { Err(E::sym(c)) } }
}
macro_rules! sym_tuple { ($( ($($n:ident),+) ;)*) => {$(
	impl<$($n: Sym),+> Sym for ($($n,)+) { fn sym(c: usize) -> Self { ( $( <$n>::sym(c), )+ ) } }
)*}; }
sym_tuple! { (A); (A, B); (A, B, C); (A, B, C, D);
	(A, B, C, D, E, F, G, H, I, J, K, L, M, N, O, P, Q, R); }
impl<T: Sym, const M: usize> Sym for [T; M] {
	fn sym(c: usize) -> Self { core::array::from_fn(|_| T::sym(c)) }
}
impl<T: Sym> Sym for Vec<T> {
	fn sym(c: usize) -> Self {
		let mut v = Vec::with_capacity(c);
		let mut i = 0;
		while i < c { v.push(T::sym(if c > 0 { c - 1 } else { 0 })); i += 1; }
		v
	}
}
impl<T: Sym> Sym for VecDeque<T> {
	fn sym(c: usize) -> Self { VecDeque::from(Vec::<T>::sym(c)) }
}
impl<T: Sym> Sym for LinkedList<T> {
	fn sym(c: usize) -> Self {
		let mut l = LinkedList::new();
		let mut i = 0;
		while i < c { l.push_back(T::sym(if c > 0 { c - 1 } else { 0 })); i += 1; }
		l
	}
}
impl<T: Sym> Sym for Box<T> { fn sym(c: usize) -> Self { Box::new(T::sym(c)) } }
impl<T: Sym> Sym for Rc<T> { fn sym(c: usize) -> Self { Rc::new(T::sym(c)) } }
impl<T: Sym> Sym for Arc<T> { fn sym(c: usize) -> Self { Arc::new(T::sym(c)) } }
impl Sym for core::time::Duration {
	fn sym(_c: usize) -> Self {
		let s: u64 = kani::any();
		let n: u32 = kani::any();
		kani::assume(n < 1_000_000_000);
		core::time::Duration::new(s, n)
	}
}
impl<T: Sym> Sym for core::ops::Range<T> { fn sym(c: usize) -> Self { T::sym(c)..T::sym(c) } }
impl<T: Sym> Sym for core::ops::RangeInclusive<T> { fn sym(c: usize) -> Self { T::sym(c)..=T::sym(c) } }
/// ASCII-only symbolic string of `c` bytes (7-bit content symbolic); multi-byte UTF-8 is
/// covered on the decode side (C03) where the input bytes are fully symbolic.
impl Sym for String {
	fn sym(c: usize) -> Self {
		let mut v: Vec<u8> = Vec::with_capacity(c);
		let mut i = 0;
		while i < c { let b: u8 = kani::any(); kani::assume(b < 0x80); v.push(b); i += 1; }
		match String::from_utf8(v) { Ok(s) => s, Err(_) => { kani::assume(false); unreachable!() } }
	}
}
impl<K: Sym + Ord, V: Sym> Sym for BTreeMap<K, V> {
	fn sym(c: usize) -> Self {
		let mut m = BTreeMap::new();
		let mut i = 0;
		while i < c { m.insert(K::sym(0), V::sym(0)); i += 1; }
		m
	}
}
impl<K: Sym + Ord> Sym for BTreeSet<K> {
	fn sym(c: usize) -> Self {
		let mut m = BTreeSet::new();
		let mut i = 0;
		while i < c { m.insert(K::sym(0)); i += 1; }
		m
	}
}
impl<K: Sym + Ord> Sym for BinaryHeap<K> {
	fn sym(c: usize) -> Self {
		let mut m = BinaryHeap::new();
		let mut i = 0;
		while i < c { m.push(K::sym(0)); i += 1; }
		m
	}
}
