//! Harness inputs and outputs. No `kani` references here: this file also compiles natively
//! (spec self-test, replay).
use parity_scale_codec::{Error, Input, Output};

/// Fixed-capacity output sink (rule R3: never grow a `Vec` under a symbolic length).
pub struct Buf<const N: usize> {
	pub d: [u8; N],
	pub n: usize,
}
impl<const N: usize> Buf<N> {
	pub fn new() -> Self {
		Buf { d: [0; N], n: 0 }
	}
	pub fn put(&mut self, b: u8) {
		self.d[self.n] = b;
		self.n += 1;
	}
	pub fn bytes(&self) -> &[u8] {
		&self.d[..self.n]
	}
}
impl<const N: usize> Output for Buf<N> {
	fn write(&mut self, b: &[u8]) {
		let e = self.n + b.len();
		self.d[self.n..e].copy_from_slice(b);
		self.n = e;
	}
	fn push_byte(&mut self, b: u8) {
		self.d[self.n] = b;
		self.n += 1;
	}
}

/// Byte-wise comparison of two buffers (an explicit loop so the unwind bound is the buffer
/// size, not a memcmp of unknown length).
pub fn same_bytes<const N: usize, const M: usize>(a: &Buf<N>, b: &Buf<M>) -> bool {
	if a.n != b.n {
		return false;
	}
	let mut i = 0;
	while i < a.n {
		if a.d[i] != b.d[i] {
			return false;
		}
		i += 1;
	}
	true
}
pub fn same_slice(a: &[u8], b: &[u8]) -> bool {
	if a.len() != b.len() {
		return false;
	}
	let mut i = 0;
	while i < a.len() {
		if a[i] != b[i] {
			return false;
		}
		i += 1;
	}
	true
}

/// Input serving a *concrete* prefix (up to 5 bytes, returned by value so CBMC constant
/// propagates the count: rule R2), then a symbolic payload slice.
pub struct Pre<'a> {
	pub pre: [u8; 5],
	pub np: usize,
	pub pp: usize,
	pub rest: &'a [u8],
}
impl<'a> Pre<'a> {
	/// one-byte-mode compact count
	pub fn count(c: usize, rest: &'a [u8]) -> Self {
		Pre { pre: [(c as u8) << 2, 0, 0, 0, 0], np: 1, pp: 0, rest }
	}
	/// any u32 count in its canonical compact form (concrete)
	pub fn count32(c: u32, rest: &'a [u8]) -> Self {
		let (pre, np) = crate::spec::compact5(c);
		Pre { pre, np, pp: 0, rest }
	}
	pub fn raw(pre: [u8; 5], np: usize, rest: &'a [u8]) -> Self {
		Pre { pre, np, pp: 0, rest }
	}
	pub fn consumed_payload(&self, total: usize) -> usize {
		total - self.rest.len()
	}
}
impl<'a> Input for Pre<'a> {
	fn remaining_len(&mut self) -> Result<Option<usize>, Error> {
		Ok(Some(self.rest.len() + (self.np - self.pp)))
	}
	fn read(&mut self, into: &mut [u8]) -> Result<(), Error> {
		let have = self.np - self.pp;
		if into.len() > have + self.rest.len() {
			return Err("Not enough data to fill buffer".into());
		}
		let mut i = 0;
		while i < into.len() && self.pp < self.np {
			into[i] = self.pre[self.pp];
			self.pp += 1;
			i += 1;
		}
		if i < into.len() {
			self.rest.read(&mut into[i..])
		} else {
			Ok(())
		}
	}
	fn read_byte(&mut self) -> Result<u8, Error> {
		if self.pp < self.np {
			let b = self.pre[self.pp];
			self.pp += 1;
			return Ok(b);
		}
		self.rest.read_byte()
	}
}

/// Same as `Pre` but cannot report its remaining length.
pub struct PreUnk<'a>(pub Pre<'a>);
impl<'a> Input for PreUnk<'a> {
	fn remaining_len(&mut self) -> Result<Option<usize>, Error> {
		Ok(None)
	}
	fn read(&mut self, into: &mut [u8]) -> Result<(), Error> {
		self.0.read(into)
	}
	fn read_byte(&mut self) -> Result<u8, Error> {
		self.0.read_byte()
	}
}

/// Slice input that cannot report its remaining length (like `IoReader`).
pub struct Unk<'a>(pub &'a [u8]);
impl<'a> Input for Unk<'a> {
	fn remaining_len(&mut self) -> Result<Option<usize>, Error> {
		Ok(None)
	}
	fn read(&mut self, into: &mut [u8]) -> Result<(), Error> {
		self.0.read(into)
	}
}

/// Records every `on_before_alloc_mem` announcement (saturating sum) and descend/ascend calls,
/// never fails.
pub struct HookLog<I> {
	pub inner: I,
	pub used: usize,
	pub calls: u32,
	pub depth: u32,
	pub max_depth: u32,
	pub unbalanced: bool,
	/// read attempts (successful or not)
	pub reads: u32,
}
impl<I> HookLog<I> {
	pub fn new(inner: I) -> Self {
		HookLog { inner, used: 0, calls: 0, depth: 0, max_depth: 0, unbalanced: false, reads: 0 }
	}
}
impl<I: Input> Input for HookLog<I> {
	fn remaining_len(&mut self) -> Result<Option<usize>, Error> {
		self.inner.remaining_len()
	}
	fn read(&mut self, into: &mut [u8]) -> Result<(), Error> {
		self.reads += 1;
		self.inner.read(into)
	}
	fn read_byte(&mut self) -> Result<u8, Error> {
		self.reads += 1;
		self.inner.read_byte()
	}
	fn descend_ref(&mut self) -> Result<(), Error> {
		self.depth += 1;
		if self.depth > self.max_depth {
			self.max_depth = self.depth;
		}
		Ok(())
	}
	fn ascend_ref(&mut self) {
		if self.depth == 0 {
			self.unbalanced = true;
		} else {
			self.depth -= 1;
		}
	}
	fn on_before_alloc_mem(&mut self, size: usize) -> Result<(), Error> {
		self.used = self.used.saturating_add(size);
		self.calls += 1;
		Ok(())
	}
}

/// Records the first announced allocation size and aborts the decode there, so that no
/// element is ever decoded: makes *every* u32 count reachable (C12 clause 4).
pub struct HookAbort<'a> {
	pub inner: &'a [u8],
	pub seen: Option<usize>,
	pub descends: u32,
}
impl<'a> Input for HookAbort<'a> {
	fn remaining_len(&mut self) -> Result<Option<usize>, Error> {
		Ok(None)
	}
	fn read(&mut self, into: &mut [u8]) -> Result<(), Error> {
		self.inner.read(into)
	}
	fn descend_ref(&mut self) -> Result<(), Error> {
		self.descends += 1;
		Ok(())
	}
	fn on_before_alloc_mem(&mut self, size: usize) -> Result<(), Error> {
		self.seen = Some(size);
		Err("abort at hook".into())
	}
}
