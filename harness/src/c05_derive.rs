//! C05 Derived codecs implement the declared layout: hand-written members of the family that the
//! generator does not express (generics, CompactAs, nesting, lifetimes). The bulk of the family is
//! in gen_derive.rs (generated).
use crate::{gen::*, gen2::*, io::*, spec::*, sym::Sym, gen_derive::DerivedInfo};
use alloc::{boxed::Box, vec::Vec};
use core::marker::PhantomData;
use parity_scale_codec::{Compact, CompactAs, Decode, Encode, HasCompact, MaxEncodedLen};

// ---- CompactAs newtype, used compactly inside another struct
#[derive(Encode, Decode, CompactAs, Clone, Copy)]
pub struct Ca(pub u32);
#[derive(Encode, Decode)]
pub struct UsesCa { #[codec(compact)] pub a: Ca, pub b: u8 }
impl Spec for UsesCa {
	fn spec_enc<const N: usize>(&self, o: &mut Buf<N>) { put_compact(self.a.0 as u128, o); o.put(self.b); }
	fn spec_dec(c: &mut Cur) -> Option<Self> { let a = c.compact(32)? as u32; let b = c.byte()?; Some(UsesCa { a: Ca(a), b }) }
	fn same(&self, o: &Self) -> bool { self.a.0 == o.a.0 && self.b == o.b }
}
impl Sym for UsesCa { fn sym(_c: usize) -> Self { UsesCa { a: Ca(kani::any()), b: kani::any() } } }
impl DerivedInfo for UsesCa { fn in_skipped_variant(&self) -> bool { false } fn skipped_fields_default(&self) -> bool { true } }
#[kani::proof] #[kani::unwind(19)] pub fn c05q_usesca_enc() { h_enc::<UsesCa, 20>(0) }
#[kani::proof] #[kani::unwind(19)] pub fn c05q_usesca_rt() { h_rt_derived::<UsesCa, 20>(0) }
#[kani::proof] #[kani::unwind(19)] pub fn c05q_usesca_dec() { h_dec_derived::<UsesCa, 7>() }
/// the newtype itself is a plain single-field forwarder; Compact<Ca> is the compact form
#[kani::proof]
#[kani::unwind(19)]
pub fn c05q_compactas_forms() {
	let x: u32 = kani::any();
	let mut a = Buf::<20>::new(); Ca(x).encode_to(&mut a);
	let mut e = Buf::<20>::new(); x.spec_enc(&mut e);
	assert!(same_bytes(&a, &e), "CompactAs newtype does not encode as its field");
	let mut b = Buf::<20>::new(); Compact(Ca(x)).encode_to(&mut b);
	let mut f = Buf::<20>::new(); put_compact(x as u128, &mut f);
	assert!(same_bytes(&b, &f), "Compact<newtype> does not encode as the compact inner value");
	let mut inp = b.bytes();
	match Compact::<Ca>::decode(&mut inp) {
		Ok(Compact(Ca(y))) => { assert!(y == x && inp.is_empty()); },
		Err(_) => { assert!(false, "Compact<newtype> round trip failed"); },
	}
}

// ---- generics: plain, compact-generic, parameter used only in a skipped PhantomData
#[derive(Encode, Decode, MaxEncodedLen)]
pub struct Gen<T> { pub a: T, pub b: u8 }
#[derive(Encode, Decode, MaxEncodedLen)]
pub struct GenCompact<T: HasCompact> { #[codec(compact)] pub a: T, pub b: bool }
#[derive(Encode, Decode)]
pub struct GenPhantom<T> { pub a: u16, #[codec(skip)] pub p: PhantomData<T> }
pub struct NotCodec; // deliberately neither Encode nor Decode nor Default
#[derive(Encode, Decode)]
pub enum GenEnum<T, U> { #[codec(index = 3)] A(T), B { x: U, #[codec(compact)] y: u64 }, #[codec(skip)] C(PhantomData<NotCodec>) }

#[kani::proof]
#[kani::unwind(19)]
pub fn c05q_generics() {
	let (a, b): (u32, u8) = (kani::any(), kani::any());
	let g = Gen::<u32> { a, b };
	let mut r = Buf::<20>::new(); g.encode_to(&mut r);
	let mut e = Buf::<20>::new(); a.spec_enc(&mut e); e.put(b);
	assert!(same_bytes(&r, &e), "generic struct: not the concatenation of its fields");
	let mut inp = r.bytes();
	match Gen::<u32>::decode(&mut inp) { Ok(d) => { assert!(d.a == a && d.b == b && inp.is_empty()); }, Err(_) => { assert!(false); } }
	assert!(r.n <= Gen::<u32>::max_encoded_len());

	let (x, y): (u64, bool) = (kani::any(), kani::any());
	let g = GenCompact::<u64> { a: x, b: y };
	let mut r = Buf::<20>::new(); g.encode_to(&mut r);
	let mut e = Buf::<20>::new(); put_compact(x as u128, &mut e); e.put(y as u8);
	assert!(same_bytes(&r, &e), "generic compact field: not the compact form");
	let mut inp = r.bytes();
	match GenCompact::<u64>::decode(&mut inp) { Ok(d) => { assert!(d.a == x && d.b == y && inp.is_empty()); }, Err(_) => { assert!(false); } }
	assert!(r.n <= GenCompact::<u64>::max_encoded_len(), "derived max_encoded_len too small for a generic compact field");

	let z: u16 = kani::any();
	let g = GenPhantom::<NotCodec> { a: z, p: PhantomData };
	let mut r = Buf::<8>::new(); g.encode_to(&mut r);
	assert!(r.n == 2 && r.d[0] == (z & 0xff) as u8 && r.d[1] == (z >> 8) as u8, "skipped PhantomData field contributed bytes");
	let mut inp = r.bytes();
	assert!(GenPhantom::<NotCodec>::decode(&mut inp).map(|d| d.a) == Ok(z));
}
#[kani::proof]
#[kani::unwind(19)]
pub fn c05q_generic_enum_all_bytes() {
	let bytes: [u8; 11] = kani::any();
	let len: usize = kani::any();
	kani::assume(len <= 11);
	let mut inp = &bytes[..len];
	let r = GenEnum::<u16, bool>::decode(&mut inp);
	let used = len - inp.len();
	// model computed from the definition: A -> index 3 (attribute), B -> position 1, C skipped
	let mut c = Cur::new(&bytes[..len]);
	let m: Option<(u8, u16, bool, u64)> = match c.byte() {
		Some(3) => u16::spec_dec(&mut c).map(|t| (3, t, false, 0)),
		Some(1) => match (bool::spec_dec(&mut c), ()) { (Some(x), _) => c.compact(64).map(|y| (1, 0, x, y as u64)), _ => None },
		_ => None,
	};
	match (&r, m) {
		(Ok(GenEnum::A(t)), Some((3, mt, _, _))) => assert!(*t == mt && used == c.p),
		(Ok(GenEnum::B { x, y }), Some((1, _, mx, my))) => assert!(*x == mx && *y == my && used == c.p),
		(Err(_), None) => {},
		_ => assert!(false, "derived generic enum decoder disagrees with the layout computed from the definition"),
	}
	if let Ok(v) = &r {
		let mut e = Buf::<12>::new(); v.encode_to(&mut e);
		assert!(same_slice(e.bytes(), &bytes[..used]), "re-encoding a decoded derived enum does not give back the input");
	}
	kani::cover!(r.is_ok(), "reach: accepted");
	// the skipped variant encodes to nothing and terminates
	let mut e = Buf::<4>::new();
	GenEnum::<u16, bool>::C(PhantomData).encode_to(&mut e);
	assert!(e.n == 0, "a skipped variant produced bytes");
	assert!(GenEnum::<u16, bool>::C(PhantomData).encode().is_empty());
}

// ---- nesting: derived inside derived, inside Option / Vec / tuple; unknown index rejected at depth
#[derive(Encode, Decode)]
pub enum Inner { #[codec(index = 2)] X, Y(u8) }
#[derive(Encode, Decode)]
pub struct Outer { pub a: Option<Inner>, pub b: (Inner, bool) }
fn inner_model(c: &mut Cur) -> Option<(u8, u8)> { match c.byte()? { 2 => Some((2, 0)), 1 => Some((1, c.byte()?)), _ => None } }
#[kani::proof]
#[kani::unwind(10)]
pub fn c05q_nested_unknown_index() {
	let bytes: [u8; 7] = kani::any();
	let len: usize = kani::any();
	kani::assume(len <= 7);
	let mut inp = &bytes[..len];
	let r = Outer::decode(&mut inp);
	let used = len - inp.len();
	let mut c = Cur::new(&bytes[..len]);
	let m = (|| {
		let a = match c.byte()? { 0 => None, 1 => Some(inner_model(&mut c)?), _ => return None };
		let b0 = inner_model(&mut c)?;
		let b1 = bool::spec_dec(&mut c)?;
		Some((a, b0, b1))
	})();
	assert!(r.is_ok() == m.is_some(), "nested derived decoder accepts/rejects differently from the declared layout");
	if let (Ok(v), Some((a, b0, b1))) = (&r, m) {
		assert!(used == c.p && v.b.1 == b1);
		let ok_b = match (&v.b.0, b0) { (Inner::X, (2, _)) => true, (Inner::Y(y), (1, my)) => *y == my, _ => false };
		let ok_a = match (&v.a, a) { (None, None) => true, (Some(Inner::X), Some((2, _))) => true, (Some(Inner::Y(y)), Some((1, my))) => *y == my, _ => false };
		assert!(ok_a && ok_b, "nested derived value differs from the declared layout");
		let mut e = Buf::<8>::new(); v.encode_to(&mut e);
		assert!(same_slice(e.bytes(), &bytes[..used]));
	}
	kani::cover!(r.is_ok(), "reach: accepted");
	kani::cover!(r.is_err() && len == 7, "reach: rejected with enough bytes (bad tag / unknown index)");
}
#[kani::proof]
#[kani::unwind(10)]
pub fn c05t_vec_of_derived_unknown_index() {
	let bytes: [u8; 4] = kani::any();
	let len: usize = kani::any();
	kani::assume(len <= 4);
	let mut inp = Pre::count(2, &bytes[..len]);
	let r = Vec::<Inner>::decode(&mut inp);
	let mut c = Cur::new(&bytes[..len]);
	let m = (|| { let a = inner_model(&mut c)?; let b = inner_model(&mut c)?; Some((a, b)) })();
	assert!(r.is_ok() == m.is_some(), "Vec<derived enum>: accept/reject differs from the declared layout");
	core::mem::forget(r);
}

/// negative twin: "variant B of EIdxAttr has index 2 (declaration position)" must FAIL (it is 1: position among variants)
#[kani::proof]
#[kani::unwind(6)]
pub fn c05n_twin_wrong_position() {
	let mut e = Buf::<4>::new();
	crate::gen_derive::EIdxAttr::C.encode_to(&mut e);
	assert!(e.d[0] == 2);
}
