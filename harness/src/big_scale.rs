//! Real-scale harnesses across the 16 KiB preallocation window (thorough tier, own limits: 28 GB, unlimited stack).
//! The real MAX_PREALLOCATION constant is reached; nothing is shrunk by a hook.
use crate::{gen::*, io::*, spec::*};
use crate::stubs::*;
use crate::with_stubs;
use alloc::vec::Vec;
use parity_scale_codec::{Decode, Encode};

/// C02/C07 bulk path: u8 x N straddling 16384, fully symbolic payload, element at a symbolic index preserved
fn bulk_u8<const N: usize>(unk: bool) {
	let bytes: [u8; N] = kani::any();
	let r = if unk { parity_scale_codec::decode_vec_with_len::<u8, _>(&mut Unk(&bytes[..]), N) } else { parity_scale_codec::decode_vec_with_len::<u8, _>(&mut &bytes[..], N) };
	match &r {
		Ok(v) => {
			assert!(v.len() == N, "bulk decode across the preallocation window lost or added elements");
			let i: usize = kani::any();
			kani::assume(i < N);
			assert!(v[i] == bytes[i], "bulk decode across the preallocation window changed an element");
		},
		Err(_) => assert!(false, "bulk decode across the preallocation window failed"),
	}
	core::mem::forget(r);
}
#[cfg(feature = "c02")] #[kani::proof] #[kani::unwind(4)] pub fn c02h_bulk_u8_16383() { bulk_u8::<16383>(true) }
#[cfg(feature = "c02")] #[kani::proof] #[kani::unwind(4)] pub fn c02h_bulk_u8_16384() { bulk_u8::<16384>(true) }
#[cfg(feature = "c02")] #[kani::proof] #[kani::unwind(4)] pub fn c02h_bulk_u8_16385() { bulk_u8::<16385>(true) }
#[cfg(feature = "c02")] #[kani::proof] #[kani::unwind(4)] pub fn c02h_bulk_u8_16385_slice() { bulk_u8::<16385>(false) }
#[cfg(feature = "c02")]
#[kani::proof]
#[kani::unwind(4)]
pub fn c02h_bulk_u32_4097() {
	const N: usize = 4097;
	let bytes: [u8; 4 * N] = kani::any();
	let mut s = Unk(&bytes[..]);
	let r = parity_scale_codec::decode_vec_with_len::<u32, _>(&mut s, N);
	match &r {
		Ok(v) => {
			assert!(v.len() == N && s.0.is_empty());
			let i: usize = kani::any();
			kani::assume(i < N);
			assert!(v[i] == u32::from_le_bytes([bytes[4 * i], bytes[4 * i + 1], bytes[4 * i + 2], bytes[4 * i + 3]]), "u32 bulk decode across the window changed an element");
		},
		Err(_) => assert!(false),
	}
	core::mem::forget(r);
}
/// C08 at real scale: wide elements across more than one 16 KiB chunk from an input that cannot report its length, vs a slice
#[cfg(feature = "c08")]
#[kani::proof]
#[kani::unwind(4)]
pub fn c08h_unknown_length_multi_chunk_u32() {
	const N: usize = 4097;
	let bytes: [u8; 4 * N + 1] = kani::any();
	let mut a = Unk(&bytes[..]);
	let ra = parity_scale_codec::decode_vec_with_len::<u32, _>(&mut a, N);
	let mut b = &bytes[..];
	let rb = parity_scale_codec::decode_vec_with_len::<u32, _>(&mut b, N);
	match (&ra, &rb) {
		(Ok(x), Ok(y)) => {
			assert!(x.len() == N && y.len() == N && a.0.len() == 1 && b.len() == 1, "multi-chunk decode: consumption depends on the input kind");
			let i: usize = kani::any();
			kani::assume(i < N);
			assert!(x[i] == y[i], "multi-chunk decode of wide elements depends on the input kind");
		},
		_ => assert!(false, "multi-chunk decode failed on complete input"),
	}
	core::mem::forget((ra, rb));
}

/// C01: the 2^14 count-prefix boundary on the encode side with a real collection (bulk write)
#[cfg(feature = "c01")]
#[kani::proof]
#[kani::unwind(4)]
pub fn c01h_vec_u8_encode_16384() {
	const N: usize = 16384;
	let bytes: [u8; N] = kani::any();
	let v: Vec<u8> = bytes.to_vec();
	let mut out = Buf::<{ N + 8 }>::new();
	v.encode_to(&mut out);
	assert!(out.n == N + 4, "count prefix of 2^14 elements is not the four-byte mode");
	assert!(out.d[0] == 0x02 && out.d[1] == 0x00 && out.d[2] == 0x01 && out.d[3] == 0x00, "count prefix of 2^14 elements is wrong");
	let i: usize = kani::any();
	kani::assume(i < N);
	assert!(out.d[4 + i] == bytes[i]);
	core::mem::forget(v);
}

/// C07 / C20: the owned-vector entry point at real scale: one write of 20000 bytes (> 16 KiB and not a multiple of it)
/// into a `Vec<u8>` sink -- `Output for Vec<u8>` in no-std builds, the `io::Write` blanket impl in std builds
fn encode_owned_20000() {
	const N: usize = 20000;
	let bytes: [u8; N] = kani::any();
	let v: Vec<u8> = bytes.to_vec();
	let e = v.encode();
	assert!(e.len() == N + 4, "encode() of a 20000-byte vector lost or added bytes");
	assert!(e[0] == 0x82 && e[1] == 0x38 && e[2] == 0x01 && e[3] == 0x00, "count prefix of 20000 elements is wrong");
	let i: usize = kani::any();
	kani::assume(i < N);
	assert!(e[4 + i] == bytes[i], "encode() of a 20000-byte vector changed a byte");
	assert!(v.encoded_size() == N + 4);
	core::mem::forget((v, e));
}
#[cfg(feature = "c07")] #[kani::proof] #[kani::unwind(4)] pub fn c07h_encode_owned_20000() { encode_owned_20000() }
#[cfg(feature = "c20")] #[kani::proof] #[kani::unwind(4)] pub fn c20h_encode_owned_20000() { encode_owned_20000() }

/// C02 element path across chunk reservations without a source hook: element size 8192 => chunk_len 2
pub struct Pad8191(pub [u8; 8191]);
impl Default for Pad8191 { fn default() -> Self { Pad8191([0; 8191]) } }
#[derive(Decode)]
pub struct BigElem { pub x: u8, #[codec(skip)] pub pad: Pad8191 }
fn big_elems<const C: usize>() {
	// exactly C input bytes (every truncation point is the business of C03/C09's chunk-progress harnesses)
	let bytes: [u8; C] = kani::any();
	let mut inp = Unk(&bytes[..]);
	let r = parity_scale_codec::decode_vec_with_len::<BigElem, _>(&mut inp, C);
	match &r {
		Ok(v) => {
			assert!(v.len() == C && inp.0.is_empty(), "element-path decode across chunk reservations lost or added elements");
			let i: usize = kani::any();
			kani::assume(i < C);
			assert!(v[i].x == bytes[i], "element changed across a chunk reservation");
		},
		Err(_) => assert!(false, "element-path decode across chunk reservations failed on complete input"),
	}
	core::mem::forget(r);
}
#[cfg(feature = "c02")] with_stubs!(le_32k, #[kani::unwind(5)] pub fn c02h_elem_chunks_c3() { big_elems::<3>() });
#[cfg(feature = "c02")] with_stubs!(le_32k, #[kani::unwind(5)] pub fn c02h_elem_chunks_c2() { big_elems::<2>() });
