use crate::{gen::*, io::*, spec::*};
use alloc::{vec::Vec, collections::*};
use parity_scale_codec::{Compact, Decode, Encode};
#[kani::proof]
#[kani::unwind(8)]
pub fn sx_real_only() {
	let bytes: [u8; 4] = kani::any();
	let len: usize = kani::any();
	kani::assume(len <= 4);
	let mut inp = Pre::count32(u32::MAX, &bytes[..len]);
	let r = Vec::<u8>::decode(&mut inp);
	assert!(r.is_err());
	core::mem::forget(r);
}
#[kani::proof]
#[kani::unwind(8)]
pub fn sx_spec_only() {
	let bytes: [u8; 4] = kani::any();
	let len: usize = kani::any();
	kani::assume(len <= 4);
	let mut cur = Cur::with_count(u32::MAX, &bytes[..len]);
	let m = Vec::<u8>::spec_dec(&mut cur);
	assert!(m.is_none());
	core::mem::forget(m);
}
#[kani::proof]
#[kani::unwind(8)]
pub fn sx_count_only() {
	let bytes: [u8; 4] = kani::any();
	let mut inp = Pre::count32(u32::MAX, &bytes[..]);
	let r = Compact::<u32>::decode(&mut inp);
	assert!(r == Ok(Compact(u32::MAX)));
}
#[kani::proof]
#[kani::unwind(8)]
pub fn sx_map1_real() {
	let bytes: [u8; 2] = kani::any();
	let mut inp = Pre::count32(1, &bytes[..]);
	let r = BTreeMap::<u8, bool>::decode(&mut inp);
	assert!(r.is_ok() == (bytes[1] < 2));
	core::mem::forget(r);
}
#[kani::proof]
#[kani::unwind(8)]
pub fn sx_map1_spec() {
	let bytes: [u8; 2] = kani::any();
	let mut cur = Cur::with_count(1, &bytes[..]);
	let m = BTreeMap::<u8, bool>::spec_dec(&mut cur);
	assert!(m.is_some() == (bytes[1] < 2));
	core::mem::forget(m);
}
