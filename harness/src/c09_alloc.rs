//! C09 Memory requested while decoding is bounded by the input supplied.
//! Observation without source hooks: `-Z stubbing` replaces std's allocation entry points
//! (`alloc::alloc::{alloc, alloc_zeroed, realloc}` and the private `realloc_nonnull` that
//! `Global::grow` really calls) by STATELESS versions that assert `size <= ALLOWANCE` and then
//! delegate to Kani's own allocator models. Every heap request made by /repo and by std on its
//! behalf is seen. Because a realloc's size is the container's whole new capacity, bounding every
//! request bounds what each container holds.
use crate::{gen::*, io::*, spec::*};
use alloc::{boxed::Box, collections::*, string::String, vec::Vec};
use core::{alloc::Layout, ptr::NonNull};
use parity_scale_codec::{Compact, Decode, Encode, Input};

use crate::stubs::*;
use crate::with_stubs;

/// hostile count through a one-byte prefix (63, the largest) or, for Vec element types, a huge
/// count through decode_vec_with_len; <= L payload bytes; slice-like or unknown-length input.
fn hostile<T: Decode, const L: usize>(c: u32, unk: bool) {
	let bytes: [u8; L] = kani::any();
	let len: usize = kani::any();
	kani::assume(len <= L);
	let r = if unk { T::decode(&mut PreUnk(Pre::count32(c, &bytes[..len]))) } else { T::decode(&mut Pre::count32(c, &bytes[..len])) };
	assert!(r.is_err(), "a count promising more data than is present was accepted");
	kani::cover!(true, "reach: end of harness");
	core::mem::forget(r);
}
fn hostile_vec<T: Decode, const L: usize>(c: usize, unk: bool) {
	let bytes: [u8; L] = kani::any();
	let len: usize = kani::any();
	kani::assume(len <= L);
	let r = if unk { parity_scale_codec::decode_vec_with_len::<T, _>(&mut Unk(&bytes[..len]), c) } else { parity_scale_codec::decode_vec_with_len::<T, _>(&mut &bytes[..len], c) };
	assert!(r.is_err(), "a count promising more data than is present was accepted");
	kani::cover!(true, "reach: end of harness");
	core::mem::forget(r);
}

/// the same hostile counts through the library's own wrapper inputs (memory-limited with a generous limit, counting): the
/// wrappers must not widen what a sequence may reserve ahead of the data
fn hostile_vec_wrapped<T: Decode, const L: usize>(c: usize, limit: usize) {
	let bytes: [u8; L] = kani::any();
	let len: usize = kani::any();
	kani::assume(len <= L);
	let mut u = Unk(&bytes[..len]);
	let mut m = parity_scale_codec::MemTrackingInput::new(&mut u, limit);
	let r = parity_scale_codec::decode_vec_with_len::<T, _>(&mut m, c);
	assert!(r.is_err(), "a count promising more data than is present was accepted");
	let mut u2 = Unk(&bytes[..len]);
	let mut ci = parity_scale_codec::CountedInput::new(&mut u2);
	let r2 = parity_scale_codec::decode_vec_with_len::<T, _>(&mut ci, c);
	assert!(r2.is_err());
	kani::cover!(true, "reach: end of harness");
	core::mem::forget((r, r2));
}
with_stubs!(le_16k, #[kani::unwind(8)] pub fn c09q_wrapped_vec_opt_2p30() { hostile_vec_wrapped::<Option<u8>, 4>(1 << 30, 1 << 40) });
with_stubs!(le_16k, #[kani::unwind(8)] pub fn c09q_wrapped_vec_tup_2p20() { hostile_vec_wrapped::<(u8, u64), 4>(1 << 20, usize::MAX) });
with_stubs!(le_16k, #[kani::unwind(8)] pub fn c09t_wrapped_vec_u64_2p28() { hostile_vec_wrapped::<u64, 9>(1 << 28, 1 << 40) });
/// public API form: wide elements, the largest one-byte count, generous memory limit / depth limit over an unknown-length input
with_stubs!(le_16k, #[kani::unwind(8)] pub fn c09q_api_limits_wide_63() {
	use parity_scale_codec::{DecodeLimit, DecodeWithMemLimit};
	let bytes: [u8; 4] = kani::any();
	let len: usize = kani::any();
	kani::assume(len <= 4);
	let r = Vec::<[u64; 64]>::decode_with_mem_limit(&mut PreUnk(Pre::count32(63, &bytes[..len])), 1 << 40);
	assert!(r.is_err());
	let r2 = Vec::<[u64; 64]>::decode_with_depth_limit(8, &mut PreUnk(Pre::count32(63, &bytes[..len])));
	assert!(r2.is_err());
	core::mem::forget((r, r2));
});
/// BitVec, small concrete bit count (one-byte prefix, constant-propagated): when a known-length input holds fewer bytes than the
/// bits need, the decode fails WITHOUT requesting any heap memory (allowance 0)
#[cfg(feature = "ext")]
with_stubs!(le_0, #[kani::unwind(8)] pub fn c09q_bitvec_no_request_before_data() {
	use bitvec::prelude::*;
	let bytes: [u8; 3] = kani::any();
	let len: usize = kani::any();
	kani::assume(len <= 3);
	let r = BitVec::<u8, Lsb0>::decode(&mut Pre::count(63, &bytes[..len]));
	assert!(r.is_err(), "63 bits need 8 bytes");
	let r2 = BitVec::<u16, Msb0>::decode(&mut Pre::count(40, &bytes[..len]));
	assert!(r2.is_err(), "40 bits in u16 words need 6 bytes");
	core::mem::forget((r, r2));
});
/// BitVec: a bit count within the cap but far beyond the data (2^29-1 bits = 64 MiB of storage, 3 payload bytes)
#[cfg(feature = "ext")]
with_stubs!(le_16k, #[kani::unwind(8)] pub fn c09q_bitvec_hostile_unk() {
	use bitvec::prelude::*;
	let bytes: [u8; 3] = kani::any();
	let len: usize = kani::any();
	kani::assume(len <= 3);
	let r = BitVec::<u8, Lsb0>::decode(&mut PreUnk(Pre::count32(0x1fff_ffff, &bytes[..len])));
	assert!(r.is_err(), "a bit count promising more data than is present was accepted");
	core::mem::forget(r);
});
#[cfg(feature = "ext")]
with_stubs!(le_64, #[kani::unwind(8)] pub fn c09q_bitvec_hostile_slice() {
	use bitvec::prelude::*;
	let bytes: [u8; 3] = kani::any();
	let len: usize = kani::any();
	kani::assume(len <= 3);
	let r = BitVec::<u8, Lsb0>::decode(&mut Pre::count32(0x1fff_ffff, &bytes[..len]));
	assert!(r.is_err(), "a bit count promising more data than is present was accepted");
	let r2 = BitVec::<u32, Msb0>::decode(&mut Pre::count32(1000, &bytes[..len]));
	assert!(r2.is_err());
	core::mem::forget((r, r2));
});

/// `skip` is an entry point on untrusted input too: a hostile count must not make it reserve memory either
fn hostile_skip<T: Decode, const L: usize>(c: u32, unk: bool) {
	let bytes: [u8; L] = kani::any();
	let len: usize = kani::any();
	kani::assume(len <= L);
	let r = if unk { T::skip(&mut PreUnk(Pre::count32(c, &bytes[..len]))) } else { T::skip(&mut Pre::count32(c, &bytes[..len])) };
	assert!(r.is_err(), "skip accepted a count promising more data than is present");
	kani::cover!(true, "reach: end of harness");
}
with_stubs!(le_64, #[kani::unwind(8)] pub fn c09q_skip_slice_vec_u32_63() { hostile_skip::<Vec<u32>, 4>(63, false) });
with_stubs!(le_64, #[kani::unwind(8)] pub fn c09q_skip_slice_vec_bool_63() { hostile_skip::<Vec<bool>, 4>(63, false) });
with_stubs!(le_16k, #[kani::unwind(8)] pub fn c09q_skip_unk_vec_u64_63() { hostile_skip::<Vec<u64>, 9>(63, true) });
with_stubs!(le_64, #[kani::unwind(8)] pub fn c09q_skip_slice_string_63() { hostile_skip::<String, 4>(63, false) });
with_stubs!(le_16k, #[kani::unwind(8)] pub fn c09t_skip_unk_deque_arr_63() { hostile_skip::<VecDeque<[u16; 2]>, 4>(63, true) });
with_stubs!(le_64, #[kani::unwind(8)] pub fn c09q_skip_slice_vec_u32_2p26() { hostile_skip::<Vec<u32>, 4>(1 << 26, false) });
with_stubs!(le_16k, #[kani::unwind(8)] pub fn c09q_skip_unk_vec_u16_2p26() { hostile_skip::<Vec<u16>, 4>(1 << 26, true) });
/// element types that report a fixed encoded size, on inputs that cannot tell how much is left
with_stubs!(le_16k, #[kani::unwind(8)] pub fn c09q_unk_vec_bool_2p26() { hostile_vec::<bool, 4>(1 << 26, true) });
with_stubs!(le_16k, #[kani::unwind(8)] pub fn c09q_unk_vec_arr_u16_2p26() { hostile_vec::<[u16; 2], 5>(1 << 26, true) });
with_stubs!(le_16k, #[kani::unwind(8)] pub fn c09t_unk_vec_nested_arr_2p20() { hostile_vec::<[[u32; 2]; 2], 5>(1 << 20, true) });

// slice-like input (remaining length known): requests bounded by a small multiple of the input, no 16 KiB allowance needed
with_stubs!(le_64, #[kani::unwind(8)] pub fn c09q_slice_vec_u8_max() { hostile_vec::<u8, 4>(u32::MAX as usize, false) });
with_stubs!(le_64, #[kani::unwind(8)] pub fn c09q_slice_vec_u32_2p30() { hostile_vec::<u32, 7>(1 << 30, false) });
with_stubs!(le_64, #[kani::unwind(8)] pub fn c09q_slice_vec_u128_max() { hostile_vec::<u128, 4>(u32::MAX as usize, false) });
with_stubs!(le_64, #[kani::unwind(8)] pub fn c09q_slice_string_63() { hostile::<String, 4>(63, false) });
with_stubs!(le_64, #[kani::unwind(8)] pub fn c09q_slice_deque_63() { hostile::<VecDeque<u16>, 4>(63, false) });
with_stubs!(le_64, #[kani::unwind(8)] pub fn c09q_slice_heap_63() { hostile::<BinaryHeap<u8>, 3>(63, false) });
// element path: one chunk (<= 16 KiB) may be reserved ahead whatever the input says
with_stubs!(le_16k, #[kani::unwind(8)] pub fn c09q_slice_vec_opt_max() { hostile_vec::<Option<u8>, 4>(u32::MAX as usize, false) });
with_stubs!(le_16k, #[kani::unwind(8)] pub fn c09q_slice_vec_bool_2p14() { hostile_vec::<bool, 4>(1 << 14, false) });
with_stubs!(le_16k, #[kani::unwind(8)] pub fn c09q_slice_vec_tup_max() { hostile_vec::<(u8, u64), 4>(u32::MAX as usize, false) });
with_stubs!(le_256, #[kani::unwind(8)] pub fn c09q_slice_list_63() { hostile::<LinkedList<u8>, 3>(63, false) });
// moderate counts (<= 16384) of wide elements: a count is not a byte budget
with_stubs!(le_16k, #[kani::unwind(8)] pub fn c09q_slice_vec_wide_2p14() { hostile_vec::<(u64, u64), 4>(1 << 14, false) });
with_stubs!(le_16k, #[kani::unwind(8)] pub fn c09q_unk_vec_wide_1500() { hostile_vec::<(u64, u64), 4>(1500, true) });
with_stubs!(le_16k, #[kani::unwind(8)] pub fn c09q_slice_vec_arr_5000() { hostile_vec::<[u32; 4], 5>(5000, false) });
// maps/sets with decodable entries behind a hostile count: nothing may be reserved ahead for the claimed count
// (63 entries x 2 bytes = 128 B would exceed the 64 B allowance; what is legitimately needed for one or two small
// entries -- a 4-entry staging vector and one leaf node -- stays below it)
with_stubs!(le_64, #[kani::unwind(8)] pub fn c09q_map_63_one_entry_tight() { hostile_fixed::<BTreeMap<u8, u8>, 3>(63) });
with_stubs!(le_64, #[kani::unwind(8)] pub fn c09q_set_63_two_entries_tight() { hostile_fixed::<BTreeSet<u8>, 2>(63) });
// unknown-length input: still one chunk per nesting level at most
with_stubs!(le_16k, #[kani::unwind(8)] pub fn c09q_unk_vec_u8_max() { hostile_vec::<u8, 4>(u32::MAX as usize, true) });
with_stubs!(le_16k, #[kani::unwind(8)] pub fn c09q_unk_vec_u64_usizemax() { hostile_vec::<u64, 9>(usize::MAX / 8, true) });
with_stubs!(le_16k, #[kani::unwind(8)] pub fn c09q_unk_vec_opt_max() { hostile_vec::<Option<u8>, 4>(u32::MAX as usize, true) });
with_stubs!(le_16k, #[kani::unwind(8)] pub fn c09q_unk_string_63() { hostile::<String, 4>(63, true) });
with_stubs!(le_256, #[kani::unwind(8)] pub fn c09q_unk_list_63() { hostile::<LinkedList<u8>, 3>(63, true) });
with_stubs!(le_16k, #[kani::unwind(8)] pub fn c09t_unk_deque_63() { hostile::<VecDeque<u32>, 4>(63, true) });
with_stubs!(le_16k, #[kani::unwind(8)] pub fn c09t_unk_vec_u128_max() { hostile_vec::<u128, 4>(u32::MAX as usize, true) });
with_stubs!(le_16k, #[kani::unwind(8)] pub fn c09t_slice_vec_res_2p30() { hostile_vec::<Result<u8, bool>, 4>(1 << 30, false) });

/// nested: hostile inner count behind an honest outer count (every nesting position)
fn nested_inner<const L: usize>(unk: bool) {
	let bytes: [u8; L] = kani::any();
	let len: usize = kani::any();
	kani::assume(len <= L);
	// outer count 1, inner count prefix 0xFC = 63, then payload
	let r = if unk { Vec::<Vec<u8>>::decode(&mut PreUnk(Pre::raw([1 << 2, 63 << 2, 0, 0, 0], 2, &bytes[..len]))) } else { Vec::<Vec<u8>>::decode(&mut Pre::raw([1 << 2, 63 << 2, 0, 0, 0], 2, &bytes[..len])) };
	assert!(r.is_err());
	core::mem::forget(r);
}
with_stubs!(le_64, #[kani::unwind(8)] pub fn c09q_nested_inner_slice() { nested_inner::<4>(false) });
with_stubs!(le_16k, #[kani::unwind(8)] pub fn c09q_nested_inner_unk() { nested_inner::<4>(true) });

/// maps / sets: rejection paths with concrete payload length (std's from_iter is entered with a concrete item count)
fn hostile_fixed<T: Decode, const L: usize>(c: u32) {
	let bytes: [u8; L] = kani::any();
	let r = T::decode(&mut Pre::count32(c, &bytes[..]));
	assert!(r.is_err());
	core::mem::forget(r);
}
with_stubs!(le_256, #[kani::unwind(8)] pub fn c09q_map_63_l3() { hostile_fixed::<BTreeMap<u8, u8>, 3>(63) });
with_stubs!(le_256, #[kani::unwind(8)] pub fn c09q_set_63_l1() { hostile_fixed::<BTreeSet<u8>, 1>(63) });
with_stubs!(le_64, #[kani::unwind(8)] pub fn c09t_map_63_l0() { hostile_fixed::<BTreeMap<u8, u8>, 0>(63) });

/// honest small values: memory proportional to the data (success path also bounded)
with_stubs!(le_64, #[kani::unwind(8)] pub fn c09q_ok_vec_u8_3() {
	let bytes: [u8; 3] = kani::any();
	let r = Vec::<u8>::decode(&mut Pre::count(3, &bytes[..]));
	assert!(r.is_ok());
	core::mem::forget(r);
});
with_stubs!(le_64, #[kani::unwind(8)] pub fn c09q_ok_vec_opt_2() {
	let bytes: [u8; 4] = kani::any();
	let len: usize = kani::any();
	kani::assume(len <= 4);
	let r = Vec::<Option<u8>>::decode(&mut Pre::count(2, &bytes[..len]));
	core::mem::forget(r);
});

/// stub self-test: the stubs really intercept alloc, realloc (Vec growth) and Box::new
with_stubs!(le_64, #[kani::unwind(4)] pub fn c09n_selftest_vec_growth_seen() {
	let mut v: Vec<u64> = Vec::with_capacity(1);
	v.push(1);
	v.push(2);
	v.push(3); v.push(4); v.push(5); v.push(6); v.push(7); v.push(8); v.push(9); // capacity 16 * 8 = 128 > 64: must FAIL
	core::mem::forget(v);
});
with_stubs!(le_64, #[kani::unwind(4)] pub fn c09n_selftest_box_seen() {
	let b = Box::new([0u8; 65]); // must FAIL
	core::mem::forget(b);
});
/// negative twin: a 64-byte allowance on the unknown-length element path must FAIL on the allocator assertion
with_stubs!(le_64, #[kani::unwind(8)] pub fn c09n_twin_unk_vec_opt_64() { hostile_vec::<Option<u8>, 4>(u32::MAX as usize, true) });

/// no-stub twins of the functional result (a failure that appears only with stubs is a stub artefact)
#[kani::proof] #[kani::unwind(8)] pub fn c09t_nostub_vec_opt_max() { hostile_vec::<Option<u8>, 4>(u32::MAX as usize, true) }
#[kani::proof] #[kani::unwind(8)] pub fn c09t_nostub_nested() { nested_inner::<4>(true) }

// ---- chunk progress at a hostile count, reachable with 3 input bytes: element size 8192 => chunk_len = 2.
// A claimed count of 1000 must never make a reservation follow the count: after the first chunk (2 elements, 16 KiB) has
// decoded completely the next reservation is again at most one chunk (capacity 4 => 32 KiB held), never (count-2) x size.
pub struct Pad8k(pub [u8; 8191]);
impl Default for Pad8k { fn default() -> Self { Pad8k([0; 8191]) } }
#[derive(Decode)]
pub struct Big8k { pub x: u8, #[codec(skip)] pub pad: Pad8k }
fn chunk_progress<const L: usize>(count: usize, unk: bool) {
	let bytes: [u8; L] = kani::any();
	let len: usize = kani::any();
	kani::assume(len <= L);
	let r = if unk { parity_scale_codec::decode_vec_with_len::<Big8k, _>(&mut Unk(&bytes[..len]), count) } else { parity_scale_codec::decode_vec_with_len::<Big8k, _>(&mut &bytes[..len], count) };
	assert!(r.is_err(), "a count promising more data than is present was accepted");
	core::mem::forget(r);
}
with_stubs!(le_32k, #[kani::unwind(4)] pub fn c09q_chunk_progress_unk_1000() { chunk_progress::<3>(1000, true) });
with_stubs!(le_32k, #[kani::unwind(4)] pub fn c09q_chunk_progress_slice_max() { chunk_progress::<3>(u32::MAX as usize, false) });
with_stubs!(le_48k, #[kani::unwind(6)] pub fn c09t_chunk_progress_unk_5bytes() { chunk_progress::<5>(1 << 20, true) });

// ---- the recordable finding: element types with a zero-length encoding but non-zero size
pub struct Pad(pub [u64; 1024]); // 8 KiB
impl Default for Pad { fn default() -> Self { Pad([0; 1024]) } }
#[derive(Decode)]
pub struct Zbig { #[codec(skip)] pub pad: Pad }
with_stubs!(le_16k, #[kani::unwind(8)] pub fn c09k_zero_len_elem_empty_input() {
	// count 4 of an element type that reads no input: EMPTY input, decodes Ok, second chunk reservation is 32 KiB
	let empty: [u8; 0] = [];
	let r = parity_scale_codec::decode_vec_with_len::<Zbig, _>(&mut &empty[..], 4);
	core::mem::forget(r);
});
