//! generic harness bodies for derived types (family G) and wrappers
use crate::{gen::*, io::*, spec::*, sym::Sym, gen_derive::DerivedInfo};
use parity_scale_codec::{Decode, Encode, MaxEncodedLen};

/// C02/C05 on a derived type: values in a skipped variant have no encoding by design (excluded);
/// skipped fields come back as `Default`.
pub fn h_rt_derived<T: Encode + Decode + Spec + Sym + DerivedInfo, const N: usize>(c: usize) {
	let v = T::sym(c);
	kani::assume(!v.in_skipped_variant());
	let mut buf = Buf::<N>::new();
	v.encode_to(&mut buf);
	let n = buf.n;
	let suffix: [u8; 2] = kani::any();
	buf.put(suffix[0]);
	buf.put(suffix[1]);
	let mut inp = &buf.d[..n + 2];
	let r = T::decode(&mut inp);
	match &r {
		Ok(w) => {
			assert!(w.same(&v), "derived round trip changed a non-skipped field or the variant");
			assert!(w.skipped_fields_default(), "a skipped field did not come back as Default");
			assert!(inp.len() == 2 && inp[0] == suffix[0] && inp[1] == suffix[1], "derived decode did not consume exactly the encoding");
		},
		Err(_) => assert!(false, "decoding a derived encoding failed"),
	}
	kani::cover!(r.is_ok(), "reach: decode ok");
	core::mem::forget((r, v));
}

/// C03/C05: derived decoder vs. the model generated from the definition, ALL byte strings <= L
/// (the index byte ranges over all 256 values: unknown indices must be rejected)
pub fn h_dec_derived<T: Decode + Spec + DerivedInfo, const L: usize>() {
	let bytes: [u8; L] = kani::any();
	let len: usize = kani::any();
	kani::assume(len <= L);
	let mut inp = &bytes[..len];
	let r = T::decode(&mut inp);
	let used = len - inp.len();
	let mut cur = Cur::new(&bytes[..len]);
	let m = T::spec_dec(&mut cur);
	agree(&r, used, &m, cur.p);
	if let Ok(v) = &r {
		assert!(v.skipped_fields_default(), "a skipped field was not filled with Default");
		assert!(!v.in_skipped_variant(), "decoder produced a skipped variant");
	}
	kani::cover!(r.is_err(), "info: rejected");
	core::mem::forget((r, m));
}

/// derived types behind the in-place decode path (`Box<T>` and `[T; N]` decode through `decode_into`): skipped fields must
/// still come out as their defaults (agreement with the model is the plain h_dec::<Box<T>> harness)
pub fn h_dec_derived_inplace<T: Decode + Spec + DerivedInfo, const L: usize>() {
	let bytes: [u8; L] = kani::any();
	let len: usize = kani::any();
	kani::assume(len <= L);
	let mut inp = &bytes[..len];
	let r = alloc::boxed::Box::<T>::decode(&mut inp);
	if let Ok(v) = &r {
		assert!(v.skipped_fields_default(), "in-place decode left a #[codec(skip)] field without its Default value");
	}
	kani::cover!(r.is_ok(), "reach: accepted");
	let mut inp2 = &bytes[..len];
	let r2 = <[T; 2]>::decode(&mut inp2);
	if let Ok(a) = &r2 {
		assert!(a[0].skipped_fields_default() && a[1].skipped_fields_default(), "array decode left a #[codec(skip)] field without its Default value");
	}
	core::mem::forget((r, r2));
}

/// C13 on a derived type
pub fn h_max_derived<T: Encode + MaxEncodedLen + Sym, const N: usize>() {
	let v = T::sym(2);
	let mut b = Buf::<N>::new();
	v.encode_to(&mut b);
	assert!(b.n <= T::max_encoded_len(), "a derived value encodes to more bytes than the derived max_encoded_len()");
	kani::cover!(true, "reach: end of harness");
	core::mem::forget(v);
}
