//! C18 Length peeking and skipping agree with full decoding.
use crate::{gen::*, io::*, spec::*, sym::Sym};
use alloc::{collections::*, string::String, vec::Vec};
use parity_scale_codec::{Compact, Decode, DecodeLength, Encode};

macro_rules! sk_q { ($($n:ident: $t:ty, $l:literal, $u:literal;)*) => { paste::paste! { $(
	#[kani::proof] #[kani::unwind($u)] pub fn [<c18q_skip_ $n>]() { h_skip::<$t, $l>() } )* } } }
macro_rules! sk_t { ($($n:ident: $t:ty, $l:literal, $u:literal;)*) => { paste::paste! { $(
	#[kani::proof] #[kani::unwind($u)] pub fn [<c18t_skip_ $n>]() { h_skip::<$t, $l>() } )* } } }
crate::fixed_types_q!(sk_q);
crate::fixed_types_t!(sk_t);
crate::fixed_types_wide!(sk_t);
macro_rules! skc_q { ($($n:ident: $t:ty, $c:expr, $l:literal, $nn:literal, $s:literal, $u:literal;)*) => { paste::paste! { $(
	#[kani::proof] #[kani::unwind($u)] pub fn [<c18q_skip_ $n>]() { h_skip_cnt::<$t, $l>($c, $s) } )* } } }
macro_rules! skc_t { ($($n:ident: $t:ty, $c:expr, $l:literal, $nn:literal, $s:literal, $u:literal;)*) => { paste::paste! { $(
	#[kani::proof] #[kani::unwind($u)] pub fn [<c18t_skip_ $n>]() { h_skip_cnt::<$t, $l>($c, $s) } )* } } }
crate::cnt_types_q!(skc_q);
crate::cnt_types_t!(skc_t);

/// DecodeLength::len reads exactly the count prefix: for EVERY n in u32, len(compact(n) ++ junk) == n,
/// for all six collections and tuples led by them.
#[kani::proof]
#[kani::unwind(8)]
pub fn c18q_len_every_count() {
	let n: u32 = kani::any();
	let junk: [u8; 2] = kani::any();
	let (p, k) = compact5(n);
	let mut b = [0u8; 7];
	let mut i = 0;
	while i < k { b[i] = p[i]; i += 1; }
	b[k] = junk[0];
	b[k + 1] = junk[1];
	let s = &b[..k + 2];
	assert!(<Vec<u64> as DecodeLength>::len(s) == Ok(n as usize), "Vec len differs from the count prefix");
	assert!(<VecDeque<u8> as DecodeLength>::len(s) == Ok(n as usize), "VecDeque len differs");
	assert!(<BTreeMap<u8, u32> as DecodeLength>::len(s) == Ok(n as usize), "BTreeMap len differs");
	assert!(<BTreeSet<u16> as DecodeLength>::len(s) == Ok(n as usize), "BTreeSet len differs");
	assert!(<BinaryHeap<u8> as DecodeLength>::len(s) == Ok(n as usize), "BinaryHeap len differs");
	assert!(<LinkedList<String> as DecodeLength>::len(s) == Ok(n as usize), "LinkedList len differs");
	assert!(<(Vec<u8>,) as DecodeLength>::len(s) == Ok(n as usize), "1-tuple len differs");
	assert!(<(Vec<u8>, u32) as DecodeLength>::len(s) == Ok(n as usize), "2-tuple len differs");
	assert!(<(BTreeSet<u8>, u32, bool) as DecodeLength>::len(s) == Ok(n as usize), "3-tuple len differs");
}

/// ∀ byte strings <= 6: len(b) is Ok(n) iff the model's Compact<u32> decoder accepts with value n
#[kani::proof]
#[kani::unwind(8)]
pub fn c18q_len_any_bytes() {
	let bytes: [u8; 6] = kani::any();
	let len: usize = kani::any();
	kani::assume(len <= 6);
	let m = compact_decode(&bytes[..len], 32);
	let r = <Vec<u16> as DecodeLength>::len(&bytes[..len]);
	match (r, m) {
		(Ok(n), Some((v, _))) => assert!(n as u128 == v, "len differs from the count the prefix encodes"),
		(Err(_), None) => {},
		(Ok(_), None) => assert!(false, "len accepted a malformed count prefix"),
		(Err(_), Some(_)) => assert!(false, "len rejected a well-formed count prefix"),
	}
	let r2 = <(LinkedList<u8>, u8) as DecodeLength>::len(&bytes[..len]);
	assert!(r2.is_ok() == m.is_some());
}

/// len(encode(v)) == v.len() on real collections
macro_rules! lenv {
	($($name:ident: $t:ty, $c:expr, $n:literal, $u:literal;)*) => {$(
		#[kani::proof] #[kani::unwind($u)]
		pub fn $name() {
			let v = <$t>::sym($c);
			let mut b = Buf::<$n>::new();
			v.encode_to(&mut b);
			assert!(<$t as DecodeLength>::len(b.bytes()) == Ok($c), "len(encode(v)) != v.len()");
			let t = (v, 7u8);
			let mut b2 = Buf::<$n>::new();
			t.encode_to(&mut b2);
			assert!(<($t, u8) as DecodeLength>::len(b2.bytes()) == Ok($c), "tuple len != first element's len");
			core::mem::forget(t);
		}
	)*};
}
lenv! {
	c18q_lenv_vec_u16_3: Vec<u16>, 3, 12, 9; c18q_lenv_vec_opt_2: Vec<Option<u8>>, 2, 8, 8; c18q_lenv_deque_2: VecDeque<u8>, 2, 8, 6; c18q_lenv_list_2: LinkedList<u8>, 2, 8, 6;
	c18q_lenv_heap_2: BinaryHeap<u8>, 2, 8, 6; c18q_lenv_vec_0: Vec<u32>, 0, 8, 6;
	c18t_lenv_map_1: BTreeMap<u8, u8>, 1, 8, 6; c18t_lenv_set_1: BTreeSet<u8>, 1, 8, 6; c18t_lenv_vec_u8_3: Vec<u8>, 3, 8, 7;
}

/// negative twin: skip "always consumes everything" must FAIL
#[kani::proof]
#[kani::unwind(6)]
pub fn c18n_twin_skip_consumes_all() {
	let bytes: [u8; 3] = kani::any();
	let mut a = &bytes[..];
	let _ = u16::skip(&mut a);
	assert!(a.is_empty());
}

// ---- std only: the same property through IoReader on streams that end anywhere (short-chunk reader)
#[cfg(feature = "cfg_std")]
pub mod ioreader {
	use crate::gen::iord::h_ioreader;
	use parity_scale_codec::Compact;
	#[kani::proof] #[kani::unwind(14)] pub fn c18t_ioreader_tuple() { h_ioreader::<(u8, Option<u16>), 4>() }
	#[kani::proof] #[kani::unwind(14)] pub fn c18q_ioreader_opt_u16() { h_ioreader::<Option<u16>, 4>() }
	#[kani::proof] #[kani::unwind(14)] pub fn c18q_ioreader_arr_u16() { h_ioreader::<[u16; 2], 5>() }
	#[kani::proof] #[kani::unwind(14)] pub fn c18q_ioreader_arr_u8() { h_ioreader::<[u8; 4], 5>() }
	#[kani::proof] #[kani::unwind(14)] pub fn c18t_ioreader_u64() { h_ioreader::<u64, 8>() }
	#[kani::proof] #[kani::unwind(14)] pub fn c18t_ioreader_arr_opt() { h_ioreader::<[Option<bool>; 2], 4>() }
}
