//! Allowance-asserting allocator stub sets (see c09_alloc.rs for the rationale). Stateless: assert, then delegate
//! to Kani's allocator models. Selected per harness with `with_stubs!(set, ...)`; needs `-Z stubbing`.
use core::{alloc::Layout, ptr::NonNull};

extern "C" {
	fn __rust_alloc(size: usize, align: usize) -> *mut u8;
	fn __rust_alloc_zeroed(size: usize, align: usize) -> *mut u8;
	fn __rust_realloc(ptr: *mut u8, old_size: usize, align: usize, new_size: usize) -> *mut u8;
}
macro_rules! stubset {
	($m:ident, $allow:expr) => {
		pub mod $m {
			use super::*;
			pub const ALLOW: usize = $allow;
			pub unsafe fn alloc(l: Layout) -> *mut u8 {
				assert!(l.size() <= ALLOW, "heap request exceeds the allowance for this input");
				kani::assume(l.size() <= ALLOW); // assert-and-cut: an over-sized request is reported above, its (huge) object is not modelled further
				__rust_alloc(l.size(), l.align())
			}
			pub unsafe fn alloc_zeroed(l: Layout) -> *mut u8 {
				assert!(l.size() <= ALLOW, "heap request exceeds the allowance for this input");
				kani::assume(l.size() <= ALLOW);
				__rust_alloc_zeroed(l.size(), l.align())
			}
			pub unsafe fn realloc(p: *mut u8, l: Layout, new_size: usize) -> *mut u8 {
				assert!(new_size <= ALLOW, "heap request exceeds the allowance for this input");
				kani::assume(new_size <= ALLOW);
				__rust_realloc(p, l.size(), l.align(), new_size)
			}
			pub unsafe fn realloc_nonnull(p: NonNull<u8>, l: Layout, new_size: usize) -> *mut u8 {
				assert!(new_size <= ALLOW, "heap request exceeds the allowance for this input");
				kani::assume(new_size <= ALLOW);
				__rust_realloc(p.as_ptr(), l.size(), l.align(), new_size)
			}
		}
	};
}
pub const KIB16: usize = 16 * 1024;
stubset!(le_0, 0);
stubset!(le_64, 64);
stubset!(le_256, 256);
stubset!(le_16k, KIB16 + 64);
stubset!(le_32k, 2 * KIB16 + 128);
stubset!(le_48k, 3 * KIB16 + 128);

/// attach one stub set to a harness
#[macro_export]
macro_rules! with_stubs {
	($set:ident, $(#[$m:meta])* pub fn $name:ident() $body:block) => {
		#[kani::proof]
		$(#[$m])*
		#[kani::stub(alloc::alloc::alloc, crate::stubs::$set::alloc)]
		#[kani::stub(alloc::alloc::alloc_zeroed, crate::stubs::$set::alloc_zeroed)]
		#[kani::stub(alloc::alloc::realloc, crate::stubs::$set::realloc)]
		#[kani::stub(alloc::alloc::realloc_nonnull, crate::stubs::$set::realloc_nonnull)]
		pub fn $name() {
			// native replay (Kani playback does not apply stubs): the same allowance is enforced by a real global allocator
			#[cfg(feature = "pb_alloc")]
			crate::stubs::native::set_allowance(crate::stubs::$set::ALLOW);
			let _done: () = $body;
			#[cfg(feature = "pb_alloc")]
			crate::stubs::native::clear_allowance();
		}
	};
}

/// Native counterpart of the stub sets for replaying allocator-allowance counterexamples on the real build:
/// a `#[global_allocator]` wrapper around the system allocator that aborts the process (SIGABRT, no allocation on the
/// way: returning null deadlocked the test harness inside its allocation-failure reporting) on any request above the
/// allowance the harness announced.
#[cfg(feature = "pb_alloc")]
pub mod native {
	extern crate std;
	use core::alloc::{GlobalAlloc, Layout};
	use core::sync::atomic::{AtomicUsize, Ordering};
	static ALLOWANCE: AtomicUsize = AtomicUsize::new(usize::MAX);
	pub fn set_allowance(a: usize) { ALLOWANCE.store(a, Ordering::SeqCst) }
	pub fn clear_allowance() { ALLOWANCE.store(usize::MAX, Ordering::SeqCst) }
	pub struct Checking;
	unsafe impl GlobalAlloc for Checking {
		unsafe fn alloc(&self, l: Layout) -> *mut u8 {
			if l.size() > ALLOWANCE.load(Ordering::SeqCst) { std::process::abort() }
			std::alloc::System.alloc(l)
		}
		unsafe fn alloc_zeroed(&self, l: Layout) -> *mut u8 {
			if l.size() > ALLOWANCE.load(Ordering::SeqCst) { std::process::abort() }
			std::alloc::System.alloc_zeroed(l)
		}
		unsafe fn realloc(&self, p: *mut u8, l: Layout, n: usize) -> *mut u8 {
			if n > ALLOWANCE.load(Ordering::SeqCst) { std::process::abort() }
			std::alloc::System.realloc(p, l, n)
		}
		unsafe fn dealloc(&self, p: *mut u8, l: Layout) { std::alloc::System.dealloc(p, l) }
	}
	#[global_allocator]
	static GLOBAL: Checking = Checking;
}

