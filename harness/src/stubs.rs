//! Allowance-asserting allocator stub sets (see c09_alloc.rs for the rationale). Stateless: assert, then delegate
//! to Kani's allocator models. Selected per harness with `with_stubs!(set, ...)`; needs `-Z stubbing`.
use core::{alloc::Layout, ptr::NonNull};

extern "C" {
	fn __rust_alloc(size: usize, align: usize) -> *mut u8;
	fn __rust_alloc_zeroed(size: usize, align: usize) -> *mut u8;
	fn __rust_realloc(ptr: *mut u8, old_size: usize, align: usize, new_size: usize) -> *mut u8;
}
macro_rules! stubset {
	($m:ident, $allow:expr) => {
		pub mod $m {
			use super::*;
			pub const ALLOW: usize = $allow;
			pub unsafe fn alloc(l: Layout) -> *mut u8 {
				assert!(l.size() <= ALLOW, "heap request exceeds the allowance for this input");
				kani::assume(l.size() <= ALLOW); // assert-and-cut: an over-sized request is reported above, its (huge) object is not modelled further
				__rust_alloc(l.size(), l.align())
			}
			pub unsafe fn alloc_zeroed(l: Layout) -> *mut u8 {
				assert!(l.size() <= ALLOW, "heap request exceeds the allowance for this input");
				kani::assume(l.size() <= ALLOW);
				__rust_alloc_zeroed(l.size(), l.align())
			}
			pub unsafe fn realloc(p: *mut u8, l: Layout, new_size: usize) -> *mut u8 {
				assert!(new_size <= ALLOW, "heap request exceeds the allowance for this input");
				kani::assume(new_size <= ALLOW);
				__rust_realloc(p, l.size(), l.align(), new_size)
			}
			pub unsafe fn realloc_nonnull(p: NonNull<u8>, l: Layout, new_size: usize) -> *mut u8 {
				assert!(new_size <= ALLOW, "heap request exceeds the allowance for this input");
				kani::assume(new_size <= ALLOW);
				__rust_realloc(p.as_ptr(), l.size(), l.align(), new_size)
			}
		}
	};
}
pub const KIB16: usize = 16 * 1024;
stubset!(le_0, 0);
stubset!(le_64, 64);
stubset!(le_256, 256);
stubset!(le_16k, KIB16 + 64);
stubset!(le_32k, 2 * KIB16 + 128);
stubset!(le_48k, 3 * KIB16 + 128);

/// live-block counting set (C10: a failed decode leaves no heap block behind): every allocation +1, every deallocation -1
pub mod live {
	use super::*;
	extern "C" { fn __rust_dealloc(ptr: *mut u8, size: usize, align: usize); }
	pub static mut LIVE: isize = 0;
	pub static mut EVER: usize = 0;
	pub unsafe fn alloc(l: Layout) -> *mut u8 { LIVE += 1; EVER += 1; __rust_alloc(l.size(), l.align()) }
	pub unsafe fn alloc_zeroed(l: Layout) -> *mut u8 { LIVE += 1; EVER += 1; __rust_alloc_zeroed(l.size(), l.align()) }
	pub unsafe fn realloc(p: *mut u8, l: Layout, new_size: usize) -> *mut u8 { __rust_realloc(p, l.size(), l.align(), new_size) }
	pub unsafe fn realloc_nonnull(p: NonNull<u8>, l: Layout, new_size: usize) -> *mut u8 { __rust_realloc(p.as_ptr(), l.size(), l.align(), new_size) }
	pub unsafe fn dealloc(p: *mut u8, l: Layout) { LIVE -= 1; __rust_dealloc(p, l.size(), l.align()) }
	pub unsafe fn deallocate(_g: &alloc::alloc::Global, p: NonNull<u8>, l: Layout) { if l.size() != 0 { LIVE -= 1; __rust_dealloc(p.as_ptr(), l.size(), l.align()) } }
	#[cfg(not(feature = "pb_alloc"))]
	pub fn live() -> isize { unsafe { LIVE } }
	#[cfg(not(feature = "pb_alloc"))]
	pub fn ever() -> usize { unsafe { EVER } }
	// native replay: the counters live in the real global allocator (per thread, switched on by the harness)
	#[cfg(feature = "pb_alloc")]
	pub fn live() -> isize { crate::stubs::native::tl_live() }
	#[cfg(feature = "pb_alloc")]
	pub fn ever() -> usize { crate::stubs::native::tl_ever() }
}
/// attach the live-block counting set to a harness
#[macro_export]
macro_rules! with_live_count {
	($(#[$m:meta])* pub fn $name:ident() $body:block) => {
		#[kani::proof]
		$(#[$m])*
		#[kani::stub(alloc::alloc::alloc, crate::stubs::live::alloc)]
		#[kani::stub(alloc::alloc::alloc_zeroed, crate::stubs::live::alloc_zeroed)]
		#[kani::stub(alloc::alloc::realloc, crate::stubs::live::realloc)]
		#[kani::stub(alloc::alloc::realloc_nonnull, crate::stubs::live::realloc_nonnull)]
		#[kani::stub(alloc::alloc::dealloc, crate::stubs::live::dealloc)]
		#[kani::stub(<alloc::alloc::Global as core::alloc::Allocator>::deallocate, crate::stubs::live::deallocate)]
		pub fn $name() {
			#[cfg(feature = "pb_alloc")]
			crate::stubs::native::tl_start();
			let _done: () = $body;
			#[cfg(feature = "pb_alloc")]
			crate::stubs::native::tl_stop();
		}
	};
}

/// attach one stub set to a harness
#[macro_export]
macro_rules! with_stubs {
	($set:ident, $(#[$m:meta])* pub fn $name:ident() $body:block) => {
		#[kani::proof]
		$(#[$m])*
		#[kani::stub(alloc::alloc::alloc, crate::stubs::$set::alloc)]
		#[kani::stub(alloc::alloc::alloc_zeroed, crate::stubs::$set::alloc_zeroed)]
		#[kani::stub(alloc::alloc::realloc, crate::stubs::$set::realloc)]
		#[kani::stub(alloc::alloc::realloc_nonnull, crate::stubs::$set::realloc_nonnull)]
		pub fn $name() {
			// native replay (Kani playback does not apply stubs): the same allowance is enforced by a real global allocator
			#[cfg(feature = "pb_alloc")]
			crate::stubs::native::set_allowance(crate::stubs::$set::ALLOW);
			let _done: () = $body;
			#[cfg(feature = "pb_alloc")]
			crate::stubs::native::clear_allowance();
		}
	};
}

/// Native counterpart of the stub sets for replaying allocator-allowance counterexamples on the real build:
/// a `#[global_allocator]` wrapper around the system allocator that aborts the process (SIGABRT, no allocation on the
/// way: returning null deadlocked the test harness inside its allocation-failure reporting) on any request above the
/// allowance the harness announced.
#[cfg(feature = "pb_alloc")]
pub mod native {
	extern crate std;
	use core::alloc::{GlobalAlloc, Layout};
	use core::sync::atomic::{AtomicUsize, Ordering};
	static ALLOWANCE: AtomicUsize = AtomicUsize::new(usize::MAX);
	pub fn set_allowance(a: usize) { ALLOWANCE.store(a, Ordering::SeqCst) }
	pub fn clear_allowance() { ALLOWANCE.store(usize::MAX, Ordering::SeqCst) }
	// per-thread live-block counting for the `live` stub set (const-initialised, no destructor: safe to touch from the allocator)
	std::thread_local! {
		static TL_ON: core::cell::Cell<bool> = const { core::cell::Cell::new(false) };
		static TL_LIVE: core::cell::Cell<isize> = const { core::cell::Cell::new(0) };
		static TL_EVER: core::cell::Cell<usize> = const { core::cell::Cell::new(0) };
	}
	pub fn tl_start() { let _ = TL_LIVE.try_with(|c| c.set(0)); let _ = TL_EVER.try_with(|c| c.set(0)); let _ = TL_ON.try_with(|c| c.set(true)); }
	pub fn tl_stop() { let _ = TL_ON.try_with(|c| c.set(false)); }
	pub fn tl_live() -> isize { TL_LIVE.try_with(|c| c.get()).unwrap_or(0) }
	pub fn tl_ever() -> usize { TL_EVER.try_with(|c| c.get()).unwrap_or(0) }
	fn tl_count(d: isize) {
		if TL_ON.try_with(|c| c.get()).unwrap_or(false) {
			let _ = TL_LIVE.try_with(|c| c.set(c.get() + d));
			if d > 0 { let _ = TL_EVER.try_with(|c| c.set(c.get() + 1)); }
		}
	}
	pub struct Checking;
	unsafe impl GlobalAlloc for Checking {
		unsafe fn alloc(&self, l: Layout) -> *mut u8 {
			if l.size() > ALLOWANCE.load(Ordering::SeqCst) { std::process::abort() }
			tl_count(1);
			std::alloc::System.alloc(l)
		}
		unsafe fn alloc_zeroed(&self, l: Layout) -> *mut u8 {
			if l.size() > ALLOWANCE.load(Ordering::SeqCst) { std::process::abort() }
			tl_count(1);
			std::alloc::System.alloc_zeroed(l)
		}
		unsafe fn realloc(&self, p: *mut u8, l: Layout, n: usize) -> *mut u8 {
			if n > ALLOWANCE.load(Ordering::SeqCst) { std::process::abort() }
			std::alloc::System.realloc(p, l, n)
		}
		unsafe fn dealloc(&self, p: *mut u8, l: Layout) { tl_count(-1); std::alloc::System.dealloc(p, l) }
	}
	#[global_allocator]
	static GLOBAL: Checking = Checking;
}

