//! C06 Encoding depends only on logical content (deterministic, layout-free).
//! Not histories but *states*: every representation state of a small capacity is constructed
//! directly through the public API (concrete structure, symbolic contents) and must encode to the
//! model encoding of its element list.
use crate::{gen::*, io::*, spec::*, sym::Sym};
use alloc::{borrow::Cow, boxed::Box, collections::*, rc::Rc, string::String, sync::Arc, vec::Vec};
use parity_scale_codec::{Compact, Encode, Ref};

/// VecDeque with capacity >= 4 whose ring buffer holds `n` elements starting at physical offset `h`
/// (reached by h dummy push_back/pop_front), symbolic contents.
fn deque_state<T: Sym + Spec + Encode + Clone, const N: usize>(h: usize, n: usize) {
	let mut d: VecDeque<T> = VecDeque::with_capacity(4);
	let cap = d.capacity();
	let mut i = 0;
	while i < h { d.push_back(T::sym(0)); d.pop_front(); i += 1; }
	let mut i = 0;
	while i < n { d.push_back(T::sym(0)); i += 1; }
	assert!(d.capacity() == cap, "harness: no reallocation expected");
	let (a, b) = d.as_slices();
	kani::cover!(!b.is_empty(), "info: wrapped ring state reached");
	// the model: count + elements in logical order
	let mut exp = Buf::<N>::new();
	put_compact(n as u128, &mut exp);
	let mut i = 0;
	while i < n { d[i].spec_enc(&mut exp); i += 1; }
	let mut real = Buf::<N>::new();
	d.encode_to(&mut real);
	assert!(same_bytes(&real, &exp), "deque encoding depends on its ring-buffer state");
	// equals the Vec of the same elements
	let v: Vec<T> = d.iter().cloned().collect();
	let mut rv = Buf::<N>::new();
	v.encode_to(&mut rv);
	assert!(same_bytes(&real, &rv), "deque does not encode like the vector of its elements");
	core::mem::forget(d);
	core::mem::forget(v);
}
macro_rules! dq {
	($($name:ident: $t:ty, $h:literal, $n:literal, $nn:literal, $u:literal;)*) => {$(
		#[kani::proof] #[kani::unwind($u)] pub fn $name() { deque_state::<$t, $nn>($h, $n) }
	)*};
}
dq! {
	c06q_deque_u8_h0_n3: u8, 0, 3, 8, 7; c06q_deque_u8_h2_n3: u8, 2, 3, 8, 7; c06q_deque_u8_h3_n4: u8, 3, 4, 8, 7; c06q_deque_u8_h1_n0: u8, 1, 0, 8, 7;
	c06q_deque_u32_h3_n2: u32, 3, 2, 12, 12; c06q_deque_u32_h2_n3: u32, 2, 3, 16, 15; c06q_deque_bool_h3_n3: bool, 3, 3, 8, 7; c06q_deque_opt_h2_n3: Option<u8>, 2, 3, 8, 9;
	c06t_deque_u8_h1_n4: u8, 1, 4, 8, 7; c06t_deque_u8_h2_n2: u8, 2, 2, 8, 7; c06t_deque_u8_h3_n1: u8, 3, 1, 8, 7; c06t_deque_u8_h3_n3: u8, 3, 3, 8, 7;
	c06t_deque_u16_h3_n4: u16, 3, 4, 12, 11; c06t_deque_u32_h1_n4: u32, 1, 4, 20, 19; c06t_deque_bool_h2_n4: bool, 2, 4, 8, 7; c06t_deque_i64_h3_n2: i64, 3, 2, 20, 19;
	c06t_deque_u128_h3_n2: u128, 3, 2, 36, 35; c06t_deque_f32_h2_n3: f32, 2, 3, 16, 15;
}

/// 63 / 64 / 65 elements in a wrapped ring: the count prefix changes width at 64, the deque must still encode like the Vec
#[kani::proof]
#[kani::unwind(70)]
pub fn c06q_deque_count_boundary_64() {
	let b: [u8; 65] = kani::any();
	let mut d: VecDeque<u8> = VecDeque::with_capacity(80);
	d.push_back(0); d.push_back(0); d.pop_front(); d.pop_front();
	let mut i = 0;
	while i < 63 { d.push_back(b[i]); i += 1; }
	d.push_front(b[64]);
	// 64 elements: b[64], b[0..63]
	let mut exp = Buf::<72>::new();
	put_compact(64, &mut exp);
	exp.put(b[64]);
	let mut i = 0;
	while i < 63 { exp.put(b[i]); i += 1; }
	let mut r = Buf::<72>::new(); d.encode_to(&mut r);
	assert!(same_bytes(&r, &exp), "a 64-element deque does not encode as count(64) + elements");
	let v: Vec<u8> = d.iter().cloned().collect();
	let mut rv = Buf::<72>::new(); v.encode_to(&mut rv);
	assert!(same_bytes(&r, &rv), "a 64-element deque does not encode like the Vec of its elements");
	d.push_back(b[63]);
	let mut r = Buf::<72>::new(); d.encode_to(&mut r);
	assert!(r.n == 67 && r.d[0] == ((65u16 << 2) | 1) as u8 && r.d[1] == 1 && r.d[66] == b[63]);
	core::mem::forget((d, v));
}

/// other ways to reach a ring state: push_front, rotate_left, make_contiguous
#[kani::proof]
#[kani::unwind(8)]
pub fn c06q_deque_front_rotate_contiguous() {
	let x: [u16; 3] = kani::any();
	let mut exp = Buf::<8>::new();
	put_compact(3, &mut exp);
	x[0].spec_enc(&mut exp); x[1].spec_enc(&mut exp); x[2].spec_enc(&mut exp);
	let mut d: VecDeque<u16> = VecDeque::with_capacity(4);
	d.push_front(x[1]); d.push_front(x[0]); d.push_back(x[2]);
	let mut r = Buf::<8>::new(); d.encode_to(&mut r);
	assert!(same_bytes(&r, &exp), "push_front history changed the encoding");
	let mut e: VecDeque<u16> = VecDeque::with_capacity(4);
	e.push_back(x[2]); e.push_back(x[0]); e.push_back(x[1]);
	e.rotate_left(1);
	let mut r = Buf::<8>::new(); e.encode_to(&mut r);
	assert!(same_bytes(&r, &exp), "rotate history changed the encoding");
	d.make_contiguous();
	let mut r = Buf::<8>::new(); d.encode_to(&mut r);
	assert!(same_bytes(&r, &exp), "make_contiguous changed the encoding");
	core::mem::forget((d, e));
}

/// Vec / String: spare capacity via with_capacity / reserve / shrink_to_fit
#[kani::proof]
#[kani::unwind(8)]
pub fn c06q_vec_string_capacity() {
	let x: [u16; 2] = kani::any();
	let mut exp = Buf::<8>::new();
	put_compact(2, &mut exp);
	x[0].spec_enc(&mut exp); x[1].spec_enc(&mut exp);
	let mut a: Vec<u16> = Vec::with_capacity(7);
	a.push(x[0]); a.push(x[1]);
	let mut r = Buf::<8>::new(); a.encode_to(&mut r);
	assert!(same_bytes(&r, &exp), "spare capacity changed the encoding");
	a.shrink_to_fit();
	let mut r = Buf::<8>::new(); a.encode_to(&mut r);
	assert!(same_bytes(&r, &exp), "shrink_to_fit changed the encoding");
	a.reserve(1);
	let mut r = Buf::<8>::new(); a.encode_to(&mut r);
	assert!(same_bytes(&r, &exp), "reserve changed the encoding");
	// pop/push history
	a.push(7); a.pop();
	let mut r = Buf::<8>::new(); a.encode_to(&mut r);
	assert!(same_bytes(&r, &exp), "push/pop history changed the encoding");
	let c: u8 = kani::any(); kani::assume(c < 0x80);
	let mut s = String::with_capacity(7);
	s.push(c as char);
	let mut r = Buf::<8>::new(); s.encode_to(&mut r);
	assert!(r.n == 2 && r.d[0] == 4 && r.d[1] == c, "String with spare capacity encodes differently");
	core::mem::forget((a, s));
}

/// maps / sets: both insertion orders, insert-then-remove of a third key
#[kani::proof]
#[kani::unwind(8)]
pub fn c06q_map_insertion_order() {
	let v: [u8; 2] = kani::any();
	let mut m1 = BTreeMap::new(); m1.insert(3u8, v[0]); m1.insert(9u8, v[1]);
	let mut m2 = BTreeMap::new(); m2.insert(9u8, v[1]); m2.insert(3u8, v[0]);
	let mut m3 = BTreeMap::new(); m3.insert(9u8, v[1]); m3.insert(5u8, 0u8); m3.insert(3u8, v[0]); m3.remove(&5u8);
	let mut a = Buf::<8>::new(); m1.encode_to(&mut a);
	let mut b = Buf::<8>::new(); m2.encode_to(&mut b);
	let mut c = Buf::<8>::new(); m3.encode_to(&mut c);
	assert!(same_bytes(&a, &b) && same_bytes(&a, &c), "map encoding depends on insertion history");
	assert!(a.n == 5 && a.d[0] == 8 && a.d[1] == 3 && a.d[2] == v[0] && a.d[3] == 9 && a.d[4] == v[1], "map is not count + sorted pairs");
	core::mem::forget((m1, m2, m3));
}
#[kani::proof]
#[kani::unwind(8)]
pub fn c06t_map_two_symbolic_keys_both_orders() {
	let k: [u8; 2] = kani::any();
	let v: [u8; 2] = kani::any();
	kani::assume(k[0] != k[1]);
	let mut m1 = BTreeMap::new(); m1.insert(k[0], v[0]); m1.insert(k[1], v[1]);
	let mut m2 = BTreeMap::new(); m2.insert(k[1], v[1]); m2.insert(k[0], v[0]);
	let mut a = Buf::<8>::new(); m1.encode_to(&mut a);
	let mut b = Buf::<8>::new(); m2.encode_to(&mut b);
	assert!(same_bytes(&a, &b), "map encoding depends on insertion order");
	assert!(a.d[1] < a.d[3], "map pairs not in key order");
	core::mem::forget((m1, m2));
}
#[kani::proof]
#[kani::unwind(8)]
pub fn c06q_set_insertion_order() {
	let mut s1 = BTreeSet::new(); s1.insert(200u8); s1.insert(4u8); s1.insert(77u8);
	let mut s2 = BTreeSet::new(); s2.insert(4u8); s2.insert(77u8); s2.insert(200u8); s2.insert(9u8); s2.remove(&9u8);
	let mut a = Buf::<8>::new(); s1.encode_to(&mut a);
	let mut b = Buf::<8>::new(); s2.encode_to(&mut b);
	assert!(same_bytes(&a, &b) && a.n == 4 && a.d[0] == 12 && a.d[1] == 4 && a.d[2] == 77 && a.d[3] == 200, "set encoding depends on insertion history");
	core::mem::forget((s1, s2));
}

/// lists: push_front / push_back / split_off + append reaching the same list
#[kani::proof]
#[kani::unwind(8)]
pub fn c06q_list_histories() {
	let x: [u8; 3] = kani::any();
	let mut l1 = LinkedList::new(); l1.push_back(x[0]); l1.push_back(x[1]); l1.push_back(x[2]);
	let mut l2 = LinkedList::new(); l2.push_front(x[2]); l2.push_front(x[1]); l2.push_front(x[0]);
	let mut l3 = LinkedList::new(); l3.push_back(x[0]); l3.push_back(x[1]); l3.push_back(x[2]);
	let mut tail = l3.split_off(1); l3.append(&mut tail);
	let mut a = Buf::<8>::new(); l1.encode_to(&mut a);
	let mut b = Buf::<8>::new(); l2.encode_to(&mut b);
	let mut c = Buf::<8>::new(); l3.encode_to(&mut c);
	assert!(same_bytes(&a, &b) && same_bytes(&a, &c), "list encoding depends on construction history");
	assert!(a.n == 4 && a.d[0] == 12 && a.d[1] == x[0] && a.d[2] == x[1] && a.d[3] == x[2]);
	core::mem::forget((l1, l2, l3, tail));
}

/// binary heap: count + elements in the container's iteration order (what the format fixes)
#[kani::proof]
#[kani::unwind(8)]
pub fn c06q_heap_iter_order() {
	let x: [u8; 3] = kani::any();
	let mut h = BinaryHeap::new(); h.push(x[0]); h.push(x[1]); h.push(x[2]);
	let v: Vec<u8> = h.iter().cloned().collect();
	let mut a = Buf::<8>::new(); h.encode_to(&mut a);
	let mut b = Buf::<8>::new(); v.encode_to(&mut b);
	assert!(same_bytes(&a, &b), "heap does not encode as count + iteration order");
	core::mem::forget((h, v));
}

/// holders: Box/Rc/Arc/&/&mut/Cow::Borrowed/Cow::Owned/Ref of v encode as v; clone of Rc; twice = same
fn holders<T: Encode + Spec + Sym + Clone + parity_scale_codec::EncodeLike, const N: usize>(c: usize) {
	let mut v = T::sym(c);
	let mut exp = Buf::<N>::new();
	v.spec_enc(&mut exp);
	macro_rules! chk { ($e:expr, $msg:literal) => {{ let mut r = Buf::<N>::new(); $e.encode_to(&mut r); assert!(same_bytes(&r, &exp), $msg); }}; }
	chk!(v, "plain value differs from the reference");
	chk!(v, "encoding the same value twice gives different bytes");
	chk!(&v, "&T differs");
	chk!(&&v, "&&T differs");
	chk!(Box::new(v.clone()), "Box<T> differs");
	let rc = Rc::new(v.clone());
	chk!(rc, "Rc<T> differs");
	chk!(rc.clone(), "cloned Rc<T> differs");
	chk!(Arc::new(v.clone()), "Arc<T> differs");
	chk!(Cow::Borrowed(&v), "Cow::Borrowed differs");
	let owned: Cow<T> = Cow::Owned(v.clone());
	chk!(owned, "Cow::Owned differs");
	let r: Ref<T, T> = Ref::from(&v);
	chk!(r, "Ref<T,T> differs");
	chk!(&mut v, "&mut T differs");
	core::mem::forget((v, rc, owned));
}
#[kani::proof]
#[kani::unwind(8)]
pub fn c06q_holders_u32() { holders::<u32, 8>(0) }
#[kani::proof]
#[kani::unwind(8)]
pub fn c06q_holders_vec_u8() { holders::<Vec<u8>, 8>(2) }
#[kani::proof]
#[kani::unwind(8)]
pub fn c06t_holders_opt() { holders::<Option<u16>, 8>(0) }
#[kani::proof]
#[kani::unwind(19)]
pub fn c06t_holders_compact() { holders::<Compact<u64>, 20>(0) }

/// holders as ELEMENTS of slice-backed collections: the bytes are those of the values, never of the pointers
#[kani::proof]
#[kani::unwind(10)]
pub fn c06q_collections_of_holders() {
	let x: [u16; 2] = kani::any();
	let mut exp = Buf::<8>::new();
	put_compact(2, &mut exp);
	x[0].spec_enc(&mut exp); x[1].spec_enc(&mut exp);
	let mut exp_arr = Buf::<8>::new();
	x[0].spec_enc(&mut exp_arr); x[1].spec_enc(&mut exp_arr);
	macro_rules! chk { ($e:expr, $exp:ident, $msg:literal) => {{ let mut r = Buf::<8>::new(); $e.encode_to(&mut r); assert!(same_bytes(&r, &$exp), $msg); }}; }
	let vr: Vec<&u16> = alloc::vec![&x[0], &x[1]];
	chk!(vr, exp, "Vec<&T> does not encode like Vec<T>");
	let vb: Vec<Box<u16>> = alloc::vec![Box::new(x[0]), Box::new(x[1])];
	chk!(vb, exp, "Vec<Box<T>> does not encode like Vec<T>");
	let ar: [Rc<u16>; 2] = [Rc::new(x[0]), Rc::new(x[1])];
	chk!(ar, exp_arr, "[Rc<T>; N] does not encode like [T; N]");
	let sl: &[Arc<u16>] = &[Arc::new(x[0]), Arc::new(x[1])];
	chk!(sl, exp, "[Arc<T>] does not encode like [T]");
	let mut dq: VecDeque<Cow<u16>> = VecDeque::with_capacity(2);
	dq.push_back(Cow::Borrowed(&x[0])); dq.push_back(Cow::Owned(x[1]));
	chk!(dq, exp, "VecDeque<Cow<T>> does not encode like VecDeque<T>");
	let y: [u8; 2] = kani::any();
	let v8: Vec<&u8> = alloc::vec![&y[0], &y[1]];
	let mut r = Buf::<8>::new(); v8.encode_to(&mut r);
	assert!(r.n == 3 && r.d[1] == y[0] && r.d[2] == y[1], "Vec<&u8> does not encode the bytes");
	core::mem::forget((vr, vb, ar, dq, v8));
}

/// negative twin: "a deque encodes its physical buffer order" must FAIL
#[kani::proof]
#[kani::unwind(8)]
pub fn c06n_twin_physical_order() {
	let x: [u8; 3] = kani::any();
	let mut d: VecDeque<u8> = VecDeque::with_capacity(4);
	d.push_back(0); d.push_back(0); d.push_back(0); d.pop_front(); d.pop_front(); d.pop_front();
	d.push_back(x[0]); d.push_back(x[1]); d.push_back(x[2]);
	let mut r = Buf::<8>::new(); d.encode_to(&mut r);
	// physical order would be x[1], x[2] wrapped before x[0]
	assert!(r.d[1] == x[1]);
}
