//! Independent reference model of the SCALE format, written from the format description:
//! element-wise, no bulk paths, no `unsafe`, thresholds as powers of two, integers via shifts.
//! No `kani` references: compiles natively too (validated against the repository's pinned hex
//! vectors in `tests/spec_selftest.rs`).
use crate::io::Buf;
extern crate alloc;
use alloc::{
	boxed::Box,
	collections::{BTreeMap, BTreeSet, BinaryHeap, LinkedList, VecDeque},
	rc::Rc,
	string::String,
	sync::Arc,
	vec::Vec,
};

// ------------------------------------------------------------------------------------------
// compact integers

/// Shortest-mode SCALE compact encoding of `v`: returns bytes and length.
pub fn compact(v: u128) -> ([u8; 17], usize) {
	let mut o = [0u8; 17];
	if v < (1u128 << 6) {
		o[0] = (v as u8) << 2;
		(o, 1)
	} else if v < (1u128 << 14) {
		let x = (v << 2) | 1;
		o[0] = (x & 0xff) as u8;
		o[1] = ((x >> 8) & 0xff) as u8;
		(o, 2)
	} else if v < (1u128 << 30) {
		let x = (v << 2) | 2;
		o[0] = (x & 0xff) as u8;
		o[1] = ((x >> 8) & 0xff) as u8;
		o[2] = ((x >> 16) & 0xff) as u8;
		o[3] = ((x >> 24) & 0xff) as u8;
		(o, 4)
	} else {
		// number of bytes up to and including the most significant non-zero one (loop-free so
		// that harness unwind bounds need not cover it)
		let n: usize = if v >> 120 != 0 { 16 } else if v >> 112 != 0 { 15 } else if v >> 104 != 0 { 14 }
			else if v >> 96 != 0 { 13 } else if v >> 88 != 0 { 12 } else if v >> 80 != 0 { 11 }
			else if v >> 72 != 0 { 10 } else if v >> 64 != 0 { 9 } else if v >> 56 != 0 { 8 }
			else if v >> 48 != 0 { 7 } else if v >> 40 != 0 { 6 } else if v >> 32 != 0 { 5 } else { 4 };
		o[0] = 3 | (((n - 4) as u8) << 2);
		macro_rules! put { ($($k:literal)*) => { $( if $k < n { o[1 + $k] = ((v >> (8 * $k)) & 0xff) as u8; } )* } }
		put!(0 1 2 3 4 5 6 7 8 9 10 11 12 13 14 15);
		(o, n + 1)
	}
}

/// compact form of a u32 in a 5-byte array (for concrete count prefixes)
pub fn compact5(c: u32) -> ([u8; 5], usize) {
	let (b, n) = compact(c as u128);
	([b[0], b[1], b[2], b[3], b[4]], n)
}

/// Decoder *defined by the property*: accept iff the input begins with exactly the canonical
/// form of some value below 2^w; returns (value, bytes used).
pub fn compact_decode(b: &[u8], w: u32) -> Option<(u128, usize)> {
	if b.is_empty() {
		return None;
	}
	let mode = b[0] & 3;
	let n = match mode {
		0 => 1,
		1 => 2,
		2 => 4,
		_ => 1 + 4 + (b[0] >> 2) as usize,
	};
	if n > 17 || b.len() < n {
		return None;
	}
	// parse
	let mut v: u128 = 0;
	if mode == 3 {
		let mut k = 0;
		while k < n - 1 {
			v |= (b[1 + k] as u128) << (8 * k);
			k += 1;
		}
	} else {
		let mut k = 0;
		while k < n {
			v |= (b[k] as u128) << (8 * k);
			k += 1;
		}
		v >>= 2;
	}
	if w < 128 && v >= (1u128 << w) {
		return None;
	}
	// canonical iff re-encoding gives the same bytes
	let (c, cn) = compact(v);
	if cn != n {
		return None;
	}
	let mut k = 0;
	while k < n {
		if c[k] != b[k] {
			return None;
		}
		k += 1;
	}
	Some((v, n))
}

// ------------------------------------------------------------------------------------------
// cursor + trait

pub struct Cur<'a> {
	/// concrete prefix bytes (count prefix served by value, see io::Pre), then the payload
	pub pre: [u8; 5],
	pub np: usize,
	pub b: &'a [u8],
	/// position over prefix ++ payload
	pub p: usize,
}
impl<'a> Cur<'a> {
	pub fn new(b: &'a [u8]) -> Self {
		Cur { pre: [0; 5], np: 0, b, p: 0 }
	}
	pub fn with_count(c: u32, b: &'a [u8]) -> Self {
		let (pre, np) = compact5(c);
		Cur { pre, np, b, p: 0 }
	}
	pub fn total(&self) -> usize {
		self.np + self.b.len()
	}
	pub fn peek(&self, i: usize) -> Option<u8> {
		let q = self.p + i;
		if q < self.np {
			Some(self.pre[q])
		} else if q - self.np < self.b.len() {
			Some(self.b[q - self.np])
		} else {
			None
		}
	}
	pub fn byte(&mut self) -> Option<u8> {
		let x = self.peek(0)?;
		self.p += 1;
		Some(x)
	}
	/// payload bytes consumed so far (prefix excluded)
	pub fn used_payload(&self) -> usize {
		if self.p > self.np {
			self.p - self.np
		} else {
			0
		}
	}
	pub fn compact(&mut self, w: u32) -> Option<u128> {
		let first = self.peek(0)?;
		let n = match first & 3 {
			0 => 1usize,
			1 => 2,
			2 => 4,
			_ => 5 + (first >> 2) as usize,
		};
		if n > 17 {
			return None;
		}
		let mut tmp = [0u8; 17];
		let mut k = 0;
		while k < n {
			tmp[k] = self.peek(k)?;
			k += 1;
		}
		let (v, used) = compact_decode(&tmp[..n], w)?;
		self.p += used;
		Some(v)
	}
}

/// The model of one type: its SCALE encoder, its SCALE decoder, logical equality, and the
/// quantities other properties speak about (nesting depth of heap containers, heap bytes held).
pub trait Spec: Sized {
	fn spec_enc<const N: usize>(&self, o: &mut Buf<N>);
	fn spec_dec(c: &mut Cur) -> Option<Self>;
	fn same(&self, o: &Self) -> bool;
	/// container nesting depth as the depth-limit property counts it
	fn spec_depth(&self) -> u32 {
		0
	}
	/// bytes of decoded data the value holds on the heap (lower bound the mem-limit property
	/// speaks about)
	fn spec_heap(&self) -> usize {
		0
	}
	/// does the value own any heap allocation at all (a non-empty list owns its nodes even when the elements are zero-sized)
	fn spec_holds_heap(&self) -> bool {
		self.spec_heap() > 0
	}
}

pub fn put_compact<const N: usize>(v: u128, o: &mut Buf<N>) {
	let (b, n) = compact(v);
	let mut i = 0;
	while i < n {
		o.put(b[i]);
		i += 1;
	}
}

macro_rules! spec_uint {
	($($t:ty, $n:literal);*) => {$(
		impl Spec for $t {
			fn spec_enc<const N: usize>(&self, o: &mut Buf<N>) {
				let mut k = 0;
				while k < $n { o.put(((*self >> (8 * k)) & 0xff) as u8); k += 1; }
			}
			fn spec_dec(c: &mut Cur) -> Option<Self> {
				let mut v: $t = 0;
				let mut k = 0;
				while k < $n { v |= (c.byte()? as $t) << (8 * k); k += 1; }
				Some(v)
			}
			fn same(&self, o: &Self) -> bool { *self == *o }
		}
	)*};
}
spec_uint!(u16, 2; u32, 4; u64, 8; u128, 16);
impl Spec for u8 {
	fn spec_enc<const N: usize>(&self, o: &mut Buf<N>) {
		o.put(*self)
	}
	fn spec_dec(c: &mut Cur) -> Option<Self> {
		c.byte()
	}
	fn same(&self, o: &Self) -> bool {
		*self == *o
	}
}
macro_rules! spec_via {
	// signed ints and floats: two's complement / IEEE bits of the same-width unsigned
	($($t:ty, $u:ty, $to:expr, $from:expr);*) => {$(
		impl Spec for $t {
			fn spec_enc<const N: usize>(&self, o: &mut Buf<N>) { let u: $u = ($to)(*self); u.spec_enc(o) }
			fn spec_dec(c: &mut Cur) -> Option<Self> { let u = <$u>::spec_dec(c)?; Some(($from)(u)) }
			fn same(&self, o: &Self) -> bool { let a: $u = ($to)(*self); let b: $u = ($to)(*o); a == b }
		}
	)*};
}
spec_via!(
	i8, u8, |x: i8| x as u8, |u: u8| u as i8;
	i16, u16, |x: i16| x as u16, |u: u16| u as i16;
	i32, u32, |x: i32| x as u32, |u: u32| u as i32;
	i64, u64, |x: i64| x as u64, |u: u64| u as i64;
	i128, u128, |x: i128| x as u128, |u: u128| u as i128;
	f32, u32, |x: f32| x.to_bits(), |u: u32| f32::from_bits(u);
	f64, u64, |x: f64| x.to_bits(), |u: u64| f64::from_bits(u)
);

impl Spec for bool {
	fn spec_enc<const N: usize>(&self, o: &mut Buf<N>) {
		o.put(if *self { 1 } else { 0 })
	}
	fn spec_dec(c: &mut Cur) -> Option<Self> {
		match c.byte()? {
			0 => Some(false),
			1 => Some(true),
			_ => None,
		}
	}
	fn same(&self, o: &Self) -> bool {
		*self == *o
	}
}
impl Spec for () {
	fn spec_enc<const N: usize>(&self, _o: &mut Buf<N>) {}
	fn spec_dec(_c: &mut Cur) -> Option<Self> {
		Some(())
	}
	fn same(&self, _o: &Self) -> bool {
		true
	}
}
impl<T> Spec for core::marker::PhantomData<T> {
	fn spec_enc<const N: usize>(&self, _o: &mut Buf<N>) {}
	fn spec_dec(_c: &mut Cur) -> Option<Self> {
		Some(core::marker::PhantomData)
	}
	fn same(&self, _o: &Self) -> bool {
		true
	}
}

use parity_scale_codec::{Compact, OptionBool};
macro_rules! spec_compact {
	($($t:ty, $w:literal);*) => {$(
		impl Spec for Compact<$t> {
			fn spec_enc<const N: usize>(&self, o: &mut Buf<N>) { put_compact(self.0 as u128, o) }
			fn spec_dec(c: &mut Cur) -> Option<Self> { Some(Compact(c.compact($w)? as $t)) }
			fn same(&self, o: &Self) -> bool { self.0 == o.0 }
		}
	)*};
}
spec_compact!(u8, 8; u16, 16; u32, 32; u64, 64; u128, 128);
impl Spec for Compact<()> {
	fn spec_enc<const N: usize>(&self, _o: &mut Buf<N>) {}
	fn spec_dec(_c: &mut Cur) -> Option<Self> {
		Some(Compact(()))
	}
	fn same(&self, _o: &Self) -> bool {
		true
	}
}

impl Spec for OptionBool {
	fn spec_enc<const N: usize>(&self, o: &mut Buf<N>) {
		o.put(match self.0 {
			None => 0,
			Some(true) => 1,
			Some(false) => 2,
		})
	}
	fn spec_dec(c: &mut Cur) -> Option<Self> {
		match c.byte()? {
			0 => Some(OptionBool(None)),
			1 => Some(OptionBool(Some(true))),
			2 => Some(OptionBool(Some(false))),
			_ => None,
		}
	}
	fn same(&self, o: &Self) -> bool {
		self.0 == o.0
	}
}

macro_rules! spec_nonzero {
	($($nz:ty, $t:ty);*) => {$(
		impl Spec for $nz {
			fn spec_enc<const N: usize>(&self, o: &mut Buf<N>) { self.get().spec_enc(o) }
			fn spec_dec(c: &mut Cur) -> Option<Self> { <$nz>::new(<$t>::spec_dec(c)?) }
			fn same(&self, o: &Self) -> bool { self.get() == o.get() }
		}
	)*};
}
use core::num::*;
spec_nonzero!(NonZeroU8, u8; NonZeroU16, u16; NonZeroU32, u32; NonZeroU64, u64; NonZeroU128, u128;
	NonZeroI8, i8; NonZeroI16, i16; NonZeroI32, i32; NonZeroI64, i64; NonZeroI128, i128);

impl<T: Spec> Spec for Option<T> {
	fn spec_enc<const N: usize>(&self, o: &mut Buf<N>) {
		match self {
			None => o.put(0),
			Some(x) => {
				o.put(1);
				x.spec_enc(o)
			},
		}
	}
	fn spec_dec(c: &mut Cur) -> Option<Self> {
		match c.byte()? {
			0 => Some(None),
			1 => Some(Some(T::spec_dec(c)?)),
			_ => None,
		}
	}
	fn same(&self, o: &Self) -> bool {
		match (self, o) {
			(None, None) => true,
			(Some(a), Some(b)) => a.same(b),
			_ => false,
		}
	}
	fn spec_depth(&self) -> u32 {
		match self {
			None => 0,
			Some(x) => x.spec_depth(),
		}
	}
	fn spec_heap(&self) -> usize {
		match self {
			None => 0,
			Some(x) => x.spec_heap(),
		}
	}
}
impl<T: Spec, E: Spec> Spec for Result<T, E> {
	fn spec_enc<const N: usize>(&self, o: &mut Buf<N>) {
		match self {
			Ok(x) => {
				o.put(0);
				x.spec_enc(o)
			},
			Err(e) => {
				o.put(1);
				e.spec_enc(o)
			},
		}
	}
	fn spec_dec(c: &mut Cur) -> Option<Self> {
		match c.byte()? {
			0 => Some(Ok(T::spec_dec(c)?)),
			1 => Some(Err(E::spec_dec(c)?)),
			_ => None,
		}
	}
	fn same(&self, o: &Self) -> bool {
		match (self, o) {
			(Ok(a), Ok(b)) => a.same(b),
			(Err(a), Err(b)) => a.same(b),
			_ => false,
		}
	}
	fn spec_depth(&self) -> u32 {
		match self {
			Ok(x) => x.spec_depth(),
			Err(x) => x.spec_depth(),
		}
	}
	fn spec_heap(&self) -> usize {
		match self {
			Ok(x) => x.spec_heap(),
			Err(x) => x.spec_heap(),
		}
	}
}

fn max32(a: u32, b: u32) -> u32 {
	if a > b {
		a
	} else {
		b
	}
}

macro_rules! spec_tuple {
	($( ($($n:ident $i:tt),+) ;)*) => {$(
		impl<$($n: Spec),+> Spec for ($($n,)+) {
			fn spec_enc<const NN: usize>(&self, o: &mut Buf<NN>) { $( self.$i.spec_enc(o); )+ }
			fn spec_dec(c: &mut Cur) -> Option<Self> { Some(( $( <$n>::spec_dec(c)?, )+ )) }
			fn same(&self, o: &Self) -> bool { true $( && self.$i.same(&o.$i) )+ }
			fn spec_depth(&self) -> u32 { let mut d = 0; $( d = max32(d, self.$i.spec_depth()); )+ d }
			fn spec_heap(&self) -> usize { 0 $( + self.$i.spec_heap() )+ }
		}
	)*};
}
spec_tuple! {
	(A 0);
	(A 0, B 1);
	(A 0, B 1, C 2);
	(A 0, B 1, C 2, D 3);
	(A 0, B 1, C 2, D 3, E 4, F 5, G 6, H 7, I 8, J 9, K 10, L 11, M 12, N 13, O 14, P 15, Q 16, R 17);
}

impl<T: Spec, const M: usize> Spec for [T; M] {
	fn spec_enc<const N: usize>(&self, o: &mut Buf<N>) {
		let mut i = 0;
		while i < M {
			self[i].spec_enc(o);
			i += 1;
		}
	}
	fn spec_dec(c: &mut Cur) -> Option<Self> {
		// element-wise, in order; a failure anywhere fails the whole array
		let mut tmp: [Option<T>; M] = core::array::from_fn(|_| None);
		let mut i = 0;
		while i < M {
			tmp[i] = Some(T::spec_dec(c)?);
			i += 1;
		}
		Some(tmp.map(|x| match x {
			Some(v) => v,
			None => unreachable!(),
		}))
	}
	fn same(&self, o: &Self) -> bool {
		let mut i = 0;
		while i < M {
			if !self[i].same(&o[i]) {
				return false;
			}
			i += 1;
		}
		true
	}
	fn spec_depth(&self) -> u32 {
		let mut d = 0;
		let mut i = 0;
		while i < M {
			d = max32(d, self[i].spec_depth());
			i += 1;
		}
		d
	}
	fn spec_heap(&self) -> usize {
		let mut d = 0;
		let mut i = 0;
		while i < M {
			d += self[i].spec_heap();
			i += 1;
		}
		d
	}
}

/// Marker: element types for which a sequence does **not** count a nesting level in the
/// depth-limit property (primitive element types decoded in bulk) — and for which the element
/// size is what the mem-limit property counts.
pub trait Elem: Spec {
	const PRIMITIVE: bool = false;
}
macro_rules! prim_elem { ($($t:ty),*) => { $( impl Elem for $t { const PRIMITIVE: bool = true; } )* } }
prim_elem!(u8, u16, u32, u64, u128, i8, i16, i32, i64, i128, f32, f64);
macro_rules! nonprim_elem { ($($t:ty),*) => { $( impl Elem for $t {} )* } }
nonprim_elem!(bool, (), OptionBool, String);
impl<T: Spec> Elem for Option<T> {}
impl<T: Spec, E: Spec> Elem for Result<T, E> {}
impl<T: Elem> Elem for Vec<T> {}
impl<T: Spec> Elem for Box<T> {}
impl<A: Spec> Elem for (A,) {}
impl<A: Spec, B: Spec> Elem for (A, B) {}
impl<A: Spec, B: Spec, C: Spec> Elem for (A, B, C) {}
impl<T: Spec, const M: usize> Elem for [T; M] {}
macro_rules! compact_elem { ($($t:ty),*) => { $( impl Elem for Compact<$t> {} )* } }
compact_elem!(u8, u16, u32, u64, u128);
nonprim_elem!(NonZeroU8, NonZeroU16, NonZeroU32, NonZeroI8, NonZeroI64);

/// sequence body with a known element count
pub fn enc_seq<'a, T: Spec + 'a, I: Iterator<Item = &'a T>, const N: usize>(
	n: usize,
	it: I,
	o: &mut Buf<N>,
) {
	put_compact(n as u128, o);
	for x in it {
		x.spec_enc(o);
	}
}
pub fn dec_seq_n<T: Spec>(c: &mut Cur, n: usize) -> Option<Vec<T>> {
	// never trust the count for the model's own allocation either
	let mut v = Vec::with_capacity(if n < 8 { n } else { 8 });
	let mut i = 0;
	while i < n {
		v.push(T::spec_dec(c)?);
		i += 1;
	}
	Some(v)
}
/// Remaining-bytes guard of the model: a count can only be honoured if at least
/// `n * min_len` bytes remain; the model simply decodes element by element, which fails at
/// the first missing byte. (ZST elements: `n` iterations, capped by the caller's bound.)
pub fn dec_seq<T: Spec>(c: &mut Cur) -> Option<Vec<T>> {
	let n = c.compact(32)? as usize;
	dec_seq_n(c, n)
}

impl<T: Elem> Spec for Vec<T> {
	fn spec_enc<const N: usize>(&self, o: &mut Buf<N>) {
		enc_seq(self.len(), self.iter(), o)
	}
	fn spec_dec(c: &mut Cur) -> Option<Self> {
		dec_seq(c)
	}
	fn same(&self, o: &Self) -> bool {
		if self.len() != o.len() {
			return false;
		}
		let mut i = 0;
		while i < self.len() {
			if !self[i].same(&o[i]) {
				return false;
			}
			i += 1;
		}
		true
	}
	fn spec_depth(&self) -> u32 {
		if T::PRIMITIVE {
			return 0;
		}
		let mut d = 0;
		for x in self.iter() {
			d = max32(d, x.spec_depth());
		}
		1 + d
	}
	fn spec_heap(&self) -> usize {
		let mut h = self.len() * core::mem::size_of::<T>();
		for x in self.iter() {
			h += x.spec_heap();
		}
		h
	}
}
impl<T: Elem> Spec for VecDeque<T> {
	fn spec_enc<const N: usize>(&self, o: &mut Buf<N>) {
		enc_seq(self.len(), self.iter(), o)
	}
	fn spec_dec(c: &mut Cur) -> Option<Self> {
		Some(VecDeque::from(dec_seq::<T>(c)?))
	}
	fn same(&self, o: &Self) -> bool {
		if self.len() != o.len() {
			return false;
		}
		let mut i = 0;
		while i < self.len() {
			if !self[i].same(&o[i]) {
				return false;
			}
			i += 1;
		}
		true
	}
	fn spec_depth(&self) -> u32 {
		if T::PRIMITIVE {
			return 0;
		}
		let mut d = 0;
		for x in self.iter() {
			d = max32(d, x.spec_depth());
		}
		1 + d
	}
	fn spec_heap(&self) -> usize {
		let mut h = self.len() * core::mem::size_of::<T>();
		for x in self.iter() {
			h += x.spec_heap();
		}
		h
	}
}
impl<T: Elem> Spec for LinkedList<T> {
	fn spec_enc<const N: usize>(&self, o: &mut Buf<N>) {
		enc_seq(self.len(), self.iter(), o)
	}
	fn spec_dec(c: &mut Cur) -> Option<Self> {
		let v = dec_seq::<T>(c)?;
		let mut l = LinkedList::new();
		for x in v {
			l.push_back(x);
		}
		Some(l)
	}
	fn same(&self, o: &Self) -> bool {
		if self.len() != o.len() {
			return false;
		}
		let mut a = self.iter();
		let mut b = o.iter();
		loop {
			match (a.next(), b.next()) {
				(None, None) => return true,
				(Some(x), Some(y)) =>
					if !x.same(y) {
						return false;
					},
				_ => return false,
			}
		}
	}
	fn spec_depth(&self) -> u32 {
		let mut d = 0;
		for x in self.iter() {
			d = max32(d, x.spec_depth());
		}
		1 + d
	}
	fn spec_heap(&self) -> usize {
		let mut h = self.len() * core::mem::size_of::<T>();
		for x in self.iter() {
			h += x.spec_heap();
		}
		h
	}
	fn spec_holds_heap(&self) -> bool {
		!self.is_empty()
	}
}
macro_rules! spec_holder {
	($($h:ident),*) => {$(
		impl<T: Spec> Spec for $h<T> {
			fn spec_enc<const N: usize>(&self, o: &mut Buf<N>) { (**self).spec_enc(o) }
			fn spec_dec(c: &mut Cur) -> Option<Self> { Some($h::new(T::spec_dec(c)?)) }
			fn same(&self, o: &Self) -> bool { (**self).same(&**o) }
			fn spec_depth(&self) -> u32 { 1 + (**self).spec_depth() }
			fn spec_heap(&self) -> usize { core::mem::size_of::<T>() + (**self).spec_heap() }
		}
	)*};
}
spec_holder!(Box, Rc, Arc);

impl Spec for String {
	fn spec_enc<const N: usize>(&self, o: &mut Buf<N>) {
		let b = self.as_bytes();
		put_compact(b.len() as u128, o);
		let mut i = 0;
		while i < b.len() {
			o.put(b[i]);
			i += 1;
		}
	}
	fn spec_dec(c: &mut Cur) -> Option<Self> {
		let v = dec_seq::<u8>(c)?;
		if !utf8_valid(&v) {
			return None;
		}
		// validity established by the model's own table; constructing through std keeps this safe
		String::from_utf8(v).ok()
	}
	fn same(&self, o: &Self) -> bool {
		crate::io::same_slice(self.as_bytes(), o.as_bytes())
	}
	fn spec_heap(&self) -> usize {
		self.len()
	}
}

/// UTF-8 well-formedness per the Unicode standard, table 3-7.
pub fn utf8_valid(b: &[u8]) -> bool {
	let mut i = 0;
	while i < b.len() {
		let c = b[i];
		let (n, lo, hi): (usize, u8, u8) = if c < 0x80 {
			(0, 0, 0)
		} else if c >= 0xC2 && c <= 0xDF {
			(1, 0x80, 0xBF)
		} else if c == 0xE0 {
			(2, 0xA0, 0xBF)
		} else if (c >= 0xE1 && c <= 0xEC) || c == 0xEE || c == 0xEF {
			(2, 0x80, 0xBF)
		} else if c == 0xED {
			(2, 0x80, 0x9F)
		} else if c == 0xF0 {
			(3, 0x90, 0xBF)
		} else if c >= 0xF1 && c <= 0xF3 {
			(3, 0x80, 0xBF)
		} else if c == 0xF4 {
			(3, 0x80, 0x8F)
		} else {
			return false;
		};
		if i + n >= b.len() && n > 0 {
			return false;
		}
		let mut k = 1;
		while k <= n {
			let x = b[i + k];
			if k == 1 {
				if x < lo || x > hi {
					return false;
				}
			} else if x < 0x80 || x > 0xBF {
				return false;
			}
			k += 1;
		}
		i += n + 1;
	}
	true
}

impl<K: Spec + Ord, V: Spec> Spec for BTreeMap<K, V> {
	fn spec_enc<const N: usize>(&self, o: &mut Buf<N>) {
		// sorted (key, value) pairs: BTreeMap iteration order *is* key order (trusted std)
		put_compact(self.len() as u128, o);
		for (k, v) in self.iter() {
			k.spec_enc(o);
			v.spec_enc(o);
		}
	}
	fn spec_dec(c: &mut Cur) -> Option<Self> {
		let n = c.compact(32)? as usize;
		let mut m = BTreeMap::new();
		let mut i = 0;
		while i < n {
			let k = K::spec_dec(c)?;
			let v = V::spec_dec(c)?;
			m.insert(k, v); // duplicates: last wins (not named as malformed by the property)
			i += 1;
		}
		Some(m)
	}
	fn same(&self, o: &Self) -> bool {
		if self.len() != o.len() {
			return false;
		}
		let mut a = self.iter();
		let mut b = o.iter();
		loop {
			match (a.next(), b.next()) {
				(None, None) => return true,
				(Some(x), Some(y)) =>
					if !(x.0.same(y.0) && x.1.same(y.1)) {
						return false;
					},
				_ => return false,
			}
		}
	}
	fn spec_depth(&self) -> u32 {
		let mut d = 0;
		for (k, v) in self.iter() {
			d = max32(d, max32(k.spec_depth(), v.spec_depth()));
		}
		1 + d
	}
	fn spec_heap(&self) -> usize {
		let mut h = self.len() * core::mem::size_of::<(K, V)>();
		for (k, v) in self.iter() {
			h += k.spec_heap() + v.spec_heap();
		}
		h
	}
}
impl<K: Spec + Ord> Spec for BTreeSet<K> {
	fn spec_enc<const N: usize>(&self, o: &mut Buf<N>) {
		put_compact(self.len() as u128, o);
		for k in self.iter() {
			k.spec_enc(o);
		}
	}
	fn spec_dec(c: &mut Cur) -> Option<Self> {
		let n = c.compact(32)? as usize;
		let mut m = BTreeSet::new();
		let mut i = 0;
		while i < n {
			m.insert(K::spec_dec(c)?);
			i += 1;
		}
		Some(m)
	}
	fn same(&self, o: &Self) -> bool {
		if self.len() != o.len() {
			return false;
		}
		let mut a = self.iter();
		let mut b = o.iter();
		loop {
			match (a.next(), b.next()) {
				(None, None) => return true,
				(Some(x), Some(y)) =>
					if !x.same(y) {
						return false;
					},
				_ => return false,
			}
		}
	}
	fn spec_depth(&self) -> u32 {
		let mut d = 0;
		for k in self.iter() {
			d = max32(d, k.spec_depth());
		}
		1 + d
	}
	fn spec_heap(&self) -> usize {
		self.len() * core::mem::size_of::<K>()
	}
}
impl<T: Spec + Ord> Spec for BinaryHeap<T> {
	fn spec_enc<const N: usize>(&self, o: &mut Buf<N>) {
		// the format fixes count + concatenation; the order is the container's iteration order
		put_compact(self.len() as u128, o);
		for k in self.iter() {
			k.spec_enc(o);
		}
	}
	fn spec_dec(c: &mut Cur) -> Option<Self> {
		let n = c.compact(32)? as usize;
		let mut m = BinaryHeap::new();
		let mut i = 0;
		while i < n {
			m.push(T::spec_dec(c)?);
			i += 1;
		}
		Some(m)
	}
	fn same(&self, o: &Self) -> bool {
		// multiset equality (small sizes only)
		if self.len() != o.len() {
			return false;
		}
		for x in self.iter() {
			let mut ca = 0;
			let mut cb = 0;
			for y in self.iter() {
				if x.same(y) {
					ca += 1;
				}
			}
			for y in o.iter() {
				if x.same(y) {
					cb += 1;
				}
			}
			if ca != cb {
				return false;
			}
		}
		true
	}
	fn spec_heap(&self) -> usize {
		self.len() * core::mem::size_of::<T>()
	}
}

impl Spec for core::time::Duration {
	fn spec_enc<const N: usize>(&self, o: &mut Buf<N>) {
		self.as_secs().spec_enc(o);
		self.subsec_nanos().spec_enc(o);
	}
	fn spec_dec(c: &mut Cur) -> Option<Self> {
		let s = u64::spec_dec(c)?;
		let n = u32::spec_dec(c)?;
		if n >= 1_000_000_000 {
			return None;
		}
		Some(core::time::Duration::new(s, n))
	}
	fn same(&self, o: &Self) -> bool {
		self.as_secs() == o.as_secs() && self.subsec_nanos() == o.subsec_nanos()
	}
}
impl<T: Spec> Spec for core::ops::Range<T> {
	fn spec_enc<const N: usize>(&self, o: &mut Buf<N>) {
		self.start.spec_enc(o);
		self.end.spec_enc(o);
	}
	fn spec_dec(c: &mut Cur) -> Option<Self> {
		let s = T::spec_dec(c)?;
		let e = T::spec_dec(c)?;
		Some(s..e)
	}
	fn same(&self, o: &Self) -> bool {
		self.start.same(&o.start) && self.end.same(&o.end)
	}
}
impl<T: Spec> Spec for core::ops::RangeInclusive<T> {
	fn spec_enc<const N: usize>(&self, o: &mut Buf<N>) {
		self.start().spec_enc(o);
		self.end().spec_enc(o);
	}
	fn spec_dec(c: &mut Cur) -> Option<Self> {
		let s = T::spec_dec(c)?;
		let e = T::spec_dec(c)?;
		Some(s..=e)
	}
	fn same(&self, o: &Self) -> bool {
		self.start().same(o.start()) && self.end().same(o.end())
	}
}

// ------------------------------------------------------------------------------------------
// bit sequences: compact bit count, then ceil(bits / W) storage words, little-endian, zero padded.
// `msb0`: bit i of a word is bit (W-1-i) (Msb0 order), else bit i (Lsb0).

/// Model encoder from a logical bool list.
pub fn enc_bits<const N: usize>(bits: &[bool], word_bytes: usize, msb0: bool, o: &mut Buf<N>) {
	put_compact(bits.len() as u128, o);
	let w = word_bytes * 8;
	let words = (bits.len() + w - 1) / w;
	let mut wi = 0;
	while wi < words {
		let mut word: u64 = 0;
		let mut k = 0;
		while k < w {
			let idx = wi * w + k;
			if idx < bits.len() && bits[idx] {
				let pos = if msb0 { w - 1 - k } else { k };
				word |= 1u64 << pos;
			}
			k += 1;
		}
		let mut b = 0;
		while b < word_bytes {
			o.put(((word >> (8 * b)) & 0xff) as u8);
			b += 1;
		}
		wi += 1;
	}
}
