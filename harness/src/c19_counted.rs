//! C19 The counting input reports exactly the bytes delivered.
use crate::{gen::*, io::*, spec::*};
use alloc::{collections::*, string::String, vec::Vec};
use parity_scale_codec::{Compact, CountedInput, Decode, Encode, Input};

macro_rules! ct_q { ($($n:ident: $t:ty, $l:literal, $u:literal;)*) => { paste::paste! { $(
	#[kani::proof] #[kani::unwind($u)] pub fn [<c19q_cnt_ $n>]() { h_counted::<$t, $l>() } )* } } }
macro_rules! ct_t { ($($n:ident: $t:ty, $l:literal, $u:literal;)*) => { paste::paste! { $(
	#[kani::proof] #[kani::unwind($u)] pub fn [<c19t_cnt_ $n>]() { h_counted::<$t, $l>() } )* } } }
crate::fixed_types_q!(ct_q);
macro_rules! cu_q { ($($n:ident: $t:ty, $l:literal, $u:literal;)*) => { paste::paste! { $(
	#[kani::proof] #[kani::unwind($u)] pub fn [<c19q_unkskip_ $n>]() { h_counted_unk_skip::<$t, $l>() } )* } } }
macro_rules! cu_t { ($($n:ident: $t:ty, $l:literal, $u:literal;)*) => { paste::paste! { $(
	#[kani::proof] #[kani::unwind($u)] pub fn [<c19t_unkskip_ $n>]() { h_counted_unk_skip::<$t, $l>() } )* } } }
crate::fixed_types_q!(cu_q);
crate::fixed_types_t!(cu_t);
crate::fixed_types_t!(ct_t);
crate::fixed_types_wide!(ct_t);
macro_rules! ctc_q { ($($n:ident: $t:ty, $c:expr, $l:literal, $nn:literal, $s:literal, $u:literal;)*) => { paste::paste! { $(
	#[kani::proof] #[kani::unwind($u)] pub fn [<c19q_cnt_ $n>]() { h_counted_cnt::<$t, $l>($c, $s) } )* } } }
macro_rules! ctc_t { ($($n:ident: $t:ty, $c:expr, $l:literal, $nn:literal, $s:literal, $u:literal;)*) => { paste::paste! { $(
	#[kani::proof] #[kani::unwind($u)] pub fn [<c19t_cnt_ $n>]() { h_counted_cnt::<$t, $l>($c, $s) } )* } } }
crate::cnt_types_q!(ctc_q);
crate::cnt_types_t!(ctc_t);

/// direct reads: failed reads add nothing; successful reads add exactly their length; forwarders transparent
#[kani::proof]
#[kani::unwind(8)]
pub fn c19q_direct_reads() {
	let bytes: [u8; 10] = kani::any();
	let len: usize = kani::any();
	kani::assume(len <= 10);
	let mut s = &bytes[..len];
	let mut c = CountedInput::new(&mut s);
	assert!(c.count() == 0);
	assert!(c.remaining_len() == Ok(Some(len)));
	let n1: usize = kani::any();
	kani::assume(n1 <= 4);
	let mut buf = [0u8; 4];
	let r1 = c.read(&mut buf[..n1]);
	let after1 = c.count();
	assert!(after1 == if r1.is_ok() { n1 as u64 } else { 0 }, "read changed the count by something else than its length / failed read counted");
	let r2 = c.read_byte();
	assert!(c.count() == after1 + r2.is_ok() as u64, "read_byte counted wrongly");
	let n3: usize = kani::any();
	kani::assume(n3 <= 4);
	let r3 = c.read(&mut buf[..n3]);
	let total = c.count();
	assert!(total == (len - s.len()) as u64, "count differs from the bytes the wrapped input delivered");
	kani::cover!(r1.is_ok() && r2.is_ok() && r3.is_err(), "reach: ok ok fail");
	kani::cover!(r1.is_err() && r2.is_ok(), "reach: fail then ok");
}

/// hooks are forwarded unchanged through the counting wrapper
#[kani::proof]
#[kani::unwind(8)]
pub fn c19q_forwarders() {
	let bytes: [u8; 4] = kani::any();
	let mut h = HookLog::new(&bytes[..]);
	{
		let mut c = CountedInput::new(&mut h);
		assert!(c.descend_ref().is_ok());
		let sz: usize = kani::any();
		assert!(c.on_before_alloc_mem(sz).is_ok());
		c.ascend_ref();
		assert!(c.count() == 0, "hooks changed the count");
	}
	assert!(h.max_depth == 1 && h.depth == 0 && h.calls == 1, "hooks not forwarded exactly once");
}

/// one step from an ARBITRARY counter (source hook): success adds exactly the length, saturating
/// at u64::MAX instead of wrapping; failure adds nothing.
#[kani::proof]
#[kani::unwind(10)]
pub fn c19q_step_any_counter() {
	let bytes: [u8; 8] = kani::any();
	let len: usize = kani::any();
	kani::assume(len <= 8);
	let start: u64 = kani::any();
	let mut s = &bytes[..len];
	let mut c = CountedInput::__verif_with_count(&mut s, start);
	assert!(c.count() == start);
	let n: usize = kani::any();
	kani::assume(n <= 8);
	let mut buf = [0u8; 8];
	let r = c.read(&mut buf[..n]);
	let mid = c.count();
	assert!(r.is_ok() == (n <= len), "wrapper changed whether the read succeeds");
	let exp = if r.is_ok() { match start.checked_add(n as u64) { Some(x) => x, None => u64::MAX } } else { start };
	assert!(mid == exp, "read from an arbitrary counter: not +len on success (saturating) / unchanged on failure");
	let r2 = c.read_byte();
	let exp2 = if r2.is_ok() { if mid == u64::MAX { u64::MAX } else { mid + 1 } } else { mid };
	assert!(c.count() == exp2, "read_byte from an arbitrary counter: not +1 on success (saturating) / unchanged on failure");
	kani::cover!(r.is_ok() && start > u64::MAX - 4 && n > 4, "reach: saturation");
	kani::cover!(r.is_err(), "reach: failed read");
}

/// shared byte buffers decoded through the counting wrapper: prefix and payload both count (concrete input lengths:
/// a symbolic length under `Bytes` runs out of memory)
#[cfg(feature = "ext")]
fn bytes_through_counted<const LEN: usize>() {
	let bytes: [u8; LEN] = kani::any();
	let mut s = Pre::count(2, &bytes[..]);
	let mut c = CountedInput::new(&mut s);
	let r = <(bytes::Bytes, u8)>::decode(&mut c);
	let cnt = c.count();
	assert!(cnt == (s.pp + LEN - s.rest.len()) as u64, "count differs from the bytes the wrapped input delivered (Bytes)");
	assert!(r.is_ok() == (LEN >= 3));
	if r.is_ok() { assert!(cnt == 4, "a decoded (Bytes, u8) with two payload bytes is four bytes long"); }
	core::mem::forget(r);
}
#[cfg(feature = "ext")] #[kani::proof] #[kani::unwind(8)] pub fn c19q_bytes_through_counted_ok() { bytes_through_counted::<4>() }
#[cfg(feature = "ext")] #[kani::proof] #[kani::unwind(8)] pub fn c19q_bytes_through_counted_short() { bytes_through_counted::<1>() }

/// negative twin: "count equals the input length" must FAIL
#[kani::proof]
#[kani::unwind(6)]
pub fn c19n_twin_count_is_input_len() {
	let bytes: [u8; 3] = kani::any();
	let mut s = &bytes[..];
	let mut c = CountedInput::new(&mut s);
	let _ = u16::decode(&mut c);
	assert!(c.count() == 3);
}

/// the counter is a running total over the wrapper's whole life: after a FAILED read (which delivers nothing from a slice)
/// later successful reads are still counted; raw read()/read_byte() calls and decodes may be mixed
#[kani::proof]
#[kani::unwind(12)]
pub fn c19q_success_after_failure_is_counted() {
	use parity_scale_codec::{CountedInput, Decode, Input};
	let bytes: [u8; 10] = kani::any();
	let len: usize = kani::any();
	kani::assume(len <= 10);
	let mut s = &bytes[..len];
	let mut c = CountedInput::new(&mut s);
	let r1 = u32::decode(&mut c);                    // fails iff len < 4, delivering nothing
	let r2 = u16::decode(&mut c);
	let mut one = [0u8; 1];
	let r3 = c.read(&mut one);
	let r4 = c.read_byte();
	let r5 = <(u8, u16)>::decode(&mut c);            // may deliver one byte and then fail
	let cnt = c.count();
	assert!(cnt == (len - s.len()) as u64, "count differs from the bytes delivered over a sequence of reads with failures in between");
	kani::cover!(r1.is_err() && r2.is_ok(), "reach: success after failure");
	kani::cover!(r1.is_ok() && r2.is_ok() && r3.is_err(), "reach: failure after successes");
	kani::cover!(r4.is_ok() && r5.is_err(), "reach: partial tuple");
}
#[kani::proof]
#[kani::unwind(10)]
pub fn c19q_success_after_failure_unknown_length() {
	use parity_scale_codec::{CountedInput, Decode, Input};
	let bytes: [u8; 5] = kani::any();
	let len: usize = kani::any();
	kani::assume(len <= 5);
	let mut u = Unk(&bytes[..len]);
	let mut c = CountedInput::new(&mut u);
	let r1 = <[u8; 3]>::decode(&mut c);
	let r2 = u8::decode(&mut c);
	let r3 = u16::decode(&mut c);
	let cnt = c.count();
	assert!(cnt == (len - u.0.len()) as u64, "count differs from the bytes an unknown-length input delivered over several reads");
	kani::cover!(r1.is_err() && r2.is_ok(), "reach: success after failure");
}
