//! C12 Memory-limited decoding has an exact, meaningful threshold.
use crate::{gen::*, io::*, spec::*, sym::Sym};
use alloc::{boxed::Box, collections::*, rc::Rc, string::String, sync::Arc, vec::Vec};
use parity_scale_codec::{Compact, Decode, DecodeWithMemLimit, DecodeWithMemTracking, Encode, Input, MemTrackingInput};

/// 1. tracker arithmetic from ANY state: three announcements of arbitrary sizes under an arbitrary
/// limit. Call j fails iff the saturating prefix sum >= limit; used_mem() is that sum; the wrapped
/// input sees every announcement; other methods forward unchanged.
#[kani::proof]
#[kani::unwind(6)]
pub fn c12q_tracker_arithmetic() {
	let bytes: [u8; 3] = kani::any();
	let lim: usize = kani::any();
	let s: [usize; 3] = kani::any();
	let mut inner = HookLog::new(&bytes[..]);
	{
		let mut t = MemTrackingInput::new(&mut inner, lim);
		assert!(t.used_mem() == 0);
		let mut sum: usize = 0;
		let mut j = 0;
		while j < 3 {
			let r = t.on_before_alloc_mem(s[j]);
			sum = sum.saturating_add(s[j]);
			assert!(t.used_mem() == sum, "used_mem is not the saturating sum of the announced sizes");
			assert!(r.is_err() == (sum >= lim), "announcement fails iff the tracked total reaches the limit");
			j += 1;
		}
		// forwarders
		assert!(t.remaining_len() == Ok(Some(3)));
		assert!(t.descend_ref().is_ok());
		t.ascend_ref();
		assert!(t.read_byte() == Ok(bytes[0]));
		let mut b2 = [0u8; 2];
		assert!(t.read(&mut b2).is_ok() && b2[0] == bytes[1] && b2[1] == bytes[2]);
		assert!(t.read_byte().is_err());
		assert!(t.used_mem() == sum, "reads changed the tracked memory");
	}
	assert!(inner.calls == 3 && inner.max_depth == 1 && inner.depth == 0, "wrapped input did not see every hook exactly once");
	kani::cover!(lim > 0 && s[0] < lim && s[0].saturating_add(s[1]) >= lim, "reach: second announcement crosses the limit");
	kani::cover!(s[0].checked_add(s[1]).is_none(), "reach: saturation");
}

/// 2.+3. threshold per type: r0 = unlimited decode through a recording input (U = tracked usage),
/// r1 = decode_with_mem_limit(lim), lim over ALL usize.
pub fn h_memlimit<T: DecodeWithMemTracking + Spec, const L: usize>(c: Option<u32>, symbolic_len: bool) {
	let bytes: [u8; L] = kani::any();
	let len: usize = if symbolic_len { kani::any() } else { L };
	kani::assume(len <= L);
	let lim: usize = kani::any();
	let (r0, u, used0) = match c {
		Some(c) => { let mut h = HookLog::new(Pre::count32(c, &bytes[..len])); let r = T::decode(&mut h); (r, h.used, len - h.inner.rest.len()) },
		None => { let mut h = HookLog::new(&bytes[..len]); let r = T::decode(&mut h); (r, h.used, len - h.inner.len()) },
	};
	let (r1, used1) = match c {
		Some(c) => { let mut i = Pre::count32(c, &bytes[..len]); let r = T::decode_with_mem_limit(&mut i, lim); (r, len - i.rest.len()) },
		None => { let mut i = &bytes[..len]; let r = T::decode_with_mem_limit(&mut i, lim); (r, len - i.len()) },
	};
	match (&r0, &r1) {
		(Ok(a), Ok(b)) => {
			assert!(a.same(b) && used0 == used1, "memory-limited decode returned something else than unlimited decode");
			assert!(lim > u || u == 0, "succeeded although the limit does not exceed a positive tracked usage");
		},
		(Ok(_), Err(_)) => assert!(lim <= u, "failed although the limit exceeds the tracked usage"),
		(Err(_), Ok(_)) => assert!(false, "memory-limited decode succeeded where unlimited decode fails"),
		(Err(_), Err(_)) => {},
	}
	if let Ok(v) = &r0 {
		assert!(u >= v.spec_heap(), "tracked usage is below the bytes of decoded data the value holds on the heap");
		if !v.spec_holds_heap() { assert!(u == 0, "tracked usage is positive for a value holding no heap data"); }
	}
	kani::cover!(r0.is_ok() && r1.is_ok(), "info: both ok");
	kani::cover!(true, "reach: end of harness");
	kani::cover!(r0.is_ok() && r1.is_err(), "info: limit hit");
	core::mem::forget((r0, r1));
}
/// empty containers of a heap type still have heap==0; U must be 0 for them as well, so this is
/// only used to exempt nothing at the moment (kept explicit for clarity)
fn holds_heap_by_type<T>() -> bool { false }

/// the limit must hold through the library's other wrappers as well: decode_with_depth_limit over a memory-limited input and a
/// counting input over it accept/reject exactly like decode_with_mem_limit with the same limit
pub fn h_memlimit_composed<T: DecodeWithMemTracking, const L: usize>(c: Option<u32>) {
	use parity_scale_codec::{CountedInput, DecodeLimit};
	let bytes: [u8; L] = kani::any();
	let len: usize = kani::any();
	kani::assume(len <= L);
	let lim: usize = kani::any();
	let (r1, r2, r3) = match c {
		Some(c) => {
			let r1 = T::decode_with_mem_limit(&mut Pre::count32(c, &bytes[..len]), lim);
			let mut i2 = Pre::count32(c, &bytes[..len]);
			let r2 = T::decode_with_depth_limit(16, &mut MemTrackingInput::new(&mut i2, lim));
			let mut i3 = Pre::count32(c, &bytes[..len]);
			let r3 = T::decode(&mut CountedInput::new(&mut MemTrackingInput::new(&mut i3, lim)));
			(r1, r2, r3)
		},
		None => {
			let r1 = T::decode_with_mem_limit(&mut &bytes[..len], lim);
			let mut i2 = &bytes[..len];
			let r2 = T::decode_with_depth_limit(16, &mut MemTrackingInput::new(&mut i2, lim));
			let mut i3 = &bytes[..len];
			let r3 = T::decode(&mut CountedInput::new(&mut MemTrackingInput::new(&mut i3, lim)));
			(r1, r2, r3)
		},
	};
	assert!(r1.is_ok() == r2.is_ok(), "the memory limit is not enforced (or enforced differently) under decode_with_depth_limit");
	assert!(r1.is_ok() == r3.is_ok(), "the memory limit is not enforced (or enforced differently) under a counting input");
	kani::cover!(r1.is_err() && len == L, "reach: limit hit on complete input");
	kani::cover!(r1.is_ok(), "reach: accepted");
	core::mem::forget((r1, r2, r3));
}
#[kani::proof] #[kani::unwind(11)] pub fn c12q_composed_box_u64() { h_memlimit_composed::<Box<u64>, 9>(None) }
#[kani::proof] #[kani::unwind(8)] pub fn c12q_composed_vec_u16_2() { h_memlimit_composed::<Vec<u16>, 5>(Some(2)) }
#[kani::proof] #[kani::unwind(8)] pub fn c12q_composed_vec_opt_2() { h_memlimit_composed::<Vec<Option<u8>>, 5>(Some(2)) }
#[kani::proof] #[kani::unwind(8)] pub fn c12t_composed_list_2() { h_memlimit_composed::<LinkedList<u8>, 3>(Some(2)) }
#[kani::proof] #[kani::unwind(8)] pub fn c12t_composed_string_2() { h_memlimit_composed::<String, 3>(Some(2)) }

macro_rules! ml {
	($($name:ident: $t:ty, $c:expr, $l:literal, $s:literal, $u:literal;)*) => {$(
		#[kani::proof] #[kani::unwind($u)] pub fn $name() { h_memlimit::<$t, $l>($c, $s) }
	)*};
}
ml! {
	c12q_ml_u32: u32, None, 5, true, 7; c12q_ml_opt_u16: Option<u16>, None, 4, true, 6; c12q_ml_tup: (u8, bool), None, 3, true, 5; c12q_ml_arr: [u16; 2], None, 5, true, 7;
	c12q_ml_compact: Compact<u32>, None, 6, true, 19;
	c12q_ml_box_u64: Box<u64>, None, 9, true, 11; c12q_ml_rc_arr: Rc<[u8; 4]>, None, 5, true, 7; c12q_ml_arc_u16: Arc<u16>, None, 3, true, 5; c12q_ml_opt_box: Option<Box<u8>>, None, 3, true, 5;
	c12q_ml_box_box: Box<Box<u8>>, None, 2, true, 4;
	c12q_ml_vec_u8_3: Vec<u8>, Some(3), 4, true, 7; c12q_ml_vec_u32_2: Vec<u32>, Some(2), 9, true, 12; c12q_ml_vec_bool_2: Vec<bool>, Some(2), 3, true, 6;
	c12q_ml_vec_opt_2: Vec<Option<u8>>, Some(2), 5, true, 8; c12q_ml_vec_0: Vec<u32>, Some(0), 1, true, 4; c12q_ml_deque_u16_2: VecDeque<u16>, Some(2), 5, true, 8;
	c12q_ml_string_2: String, Some(2), 2, false, 8; c12q_ml_list_2: LinkedList<u8>, Some(2), 3, true, 6; c12q_ml_vec_box_2: Vec<Box<u8>>, Some(2), 3, true, 6;
	c12q_ml_map_1: BTreeMap<u8, u8>, Some(1), 2, false, 6; c12q_ml_set_1: BTreeSet<u8>, Some(1), 1, false, 6;
	c12t_ml_vec_u8_0: Vec<u8>, Some(0), 1, true, 4; c12t_ml_vec_u128_1: Vec<u128>, Some(1), 17, true, 20; c12t_ml_vec_opt_3: Vec<Option<u8>>, Some(3), 7, true, 10;
	c12t_ml_tup_vecs: (Vec<u8>, Option<Box<u16>>), None, 6, true, 9; c12t_ml_heap_2: BinaryHeap<u8>, Some(2), 2, false, 8; c12t_ml_list_box: LinkedList<Box<u8>>, Some(1), 2, true, 6;
	c12t_ml_box_vec: Box<Vec<u8>>, None, 4, true, 8; c12t_ml_string_0: String, Some(0), 1, false, 6;
}

/// 4. hook arguments for EVERY count in u32: the decode is aborted at the first announcement, so
/// no element is ever decoded and every count is reachable with <= 5 bytes.
fn first_announcement<T: Decode>(bytes: &[u8]) -> (Option<usize>, u32) {
	let mut inp = HookAbort { inner: bytes, seen: None, descends: 0 };
	let r = T::decode(&mut inp);
	assert!(r.is_err() || inp.seen.is_none());
	core::mem::forget(r);
	(inp.seen, inp.descends)
}
#[kani::proof]
#[kani::unwind(8)]
pub fn c12q_hook_every_count_btree() {
	let bytes: [u8; 5] = kani::any();
	let cnt = compact_decode(&bytes[..], 32);
	let (seen_m, d_m) = first_announcement::<BTreeMap<u32, u64>>(&bytes[..]);
	let (seen_s, _) = first_announcement::<BTreeSet<u16>>(&bytes[..]);
	match cnt {
		Some((n, _)) => {
			let n = n as usize;
			assert!(d_m == 1, "map decode must descend exactly once before announcing");
			let um = seen_m.unwrap();
			let us = seen_s.unwrap();
			assert!((n == 0) == (um == 0) && (n == 0) == (us == 0), "announced size is zero iff the map/set is empty");
			assert!(um >= n * core::mem::size_of::<(u32, u64)>() / 2, "map announcement below half the payload");
			assert!(us >= n * core::mem::size_of::<u16>() / 2, "set announcement below half the payload");
		},
		None => assert!(seen_m.is_none() && seen_s.is_none() && d_m == 0, "hooks called although the count prefix is malformed"),
	}
}
#[kani::proof]
#[kani::unwind(8)]
pub fn c12q_hook_every_count_list_vec_box() {
	let bytes: [u8; 5] = kani::any();
	let cnt = compact_decode(&bytes[..], 32);
	let (seen_l, _) = first_announcement::<LinkedList<u32>>(&bytes[..]);
	let (seen_lw, _) = first_announcement::<LinkedList<[u64; 5]>>(&bytes[..]);
	let (seen_v, d_v) = first_announcement::<Vec<Option<u16>>>(&bytes[..]);
	let (seen_p, d_p) = first_announcement::<Vec<u64>>(&bytes[..]);
	match cnt {
		Some((n, _)) => {
			let n = n as usize;
			assert!(seen_l.unwrap() >= n * core::mem::size_of::<(usize, usize, u32)>(), "list announcement below count x node payload");
			assert!(seen_lw.unwrap() >= n.saturating_mul(core::mem::size_of::<[u64; 5]>()), "list of wide elements: announcement below count x element size");
			let sz = core::mem::size_of::<Option<u16>>();
			let chunk = if n < 16384 / sz { n } else { 16384 / sz };
			if n == 0 { assert!(seen_v.is_none()); } else { assert!(seen_v == Some(chunk * sz) && d_v == 1, "first Vec chunk announcement is not min(count, chunk) x element size"); }
			let chunk8 = if n < 2048 { n } else { 2048 };
			// unknown-length input: the primitive path announces its first chunk as well
			if n == 0 { assert!(seen_p.is_none()); } else { assert!(seen_p == Some(chunk8 * 8) && d_p == 0, "first Vec<u64> chunk announcement wrong / primitive vectors must not descend"); }
		},
		None => assert!(seen_l.is_none() && seen_lw.is_none() && seen_v.is_none() && seen_p.is_none()),
	}
	let (seen_b, d_b) = first_announcement::<Box<[u32; 3]>>(&bytes[..]);
	assert!(seen_b == Some(12) && d_b == 1, "Box announces size_of::<T>() after descending once");
	let (seen_z, _) = first_announcement::<Box<()>>(&bytes[..]);
	assert!(seen_z == Some(0));
}

/// every chunk reservation is announced, not only the first: element size 8192 => chunk_len 2; three elements need two
/// reservations (2 + 1 elements) and the tracked usage must cover all three elements
pub struct Pad8k(pub [u8; 8191]);
impl Default for Pad8k { fn default() -> Self { Pad8k([0; 8191]) } }
#[derive(Decode)]
pub struct Big8k { pub x: u8, #[codec(skip)] pub pad: Pad8k }
impl DecodeWithMemTracking for Big8k {}
use crate::with_stubs;
with_stubs!(le_32k, #[kani::unwind(6)] pub fn c12q_every_chunk_announced() {
	let bytes: [u8; 3] = kani::any();
	let mut h = HookLog::new(Unk(&bytes[..]));
	let r = parity_scale_codec::decode_vec_with_len::<Big8k, _>(&mut h, 3);
	assert!(r.is_ok());
	assert!(h.used >= 3 * core::mem::size_of::<Big8k>(), "tracked usage is below count x element size: a later chunk reservation was not announced");
	assert!(h.calls == 2, "one announcement per chunk reservation");
	// and the limit really binds on the later chunk: a limit between one chunk and the total must fail
	let lim: usize = kani::any();
	kani::assume(lim > 2 * 8192 && lim <= 3 * 8192);
	let r2 = <Vec<Big8k>>::decode_with_mem_limit(&mut PreUnk(Pre::count(3, &bytes[..])), lim);
	assert!(r2.is_err(), "a limit below the tracked usage of the whole vector was not enforced on the second chunk");
	core::mem::forget((r, r2));
});

/// negative twin: "limit == usage succeeds" must FAIL (fails at >=)
#[kani::proof]
#[kani::unwind(6)]
pub fn c12n_twin_limit_equal_usage_ok() {
	let bytes: [u8; 4] = kani::any();
	let mut i = &bytes[..];
	let r = Box::<u32>::decode_with_mem_limit(&mut i, 4);
	assert!(r.is_ok());
}
